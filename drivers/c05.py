"""C05 driver: builds the worker with the standard-library seams (map-iteration start, clock, environment
counters), runs the sharded exploration, compares the per-process history tables across processes, and
runs one worker under strace to decide the I/O-freedom clause."""
import json
import os
import re
import subprocess
import sys
import time

ALLOWED_BETWEEN_MARKERS = re.compile(
    r"^(clone|clone3)\(.*CLONE_THREAD"       # the Go runtime starting an OS thread
    r"|^(exit|exit_group)\("                  # a runtime thread ending
    r"|^tgkill\(\d+, \d+, SIGURG\)"         # the Go scheduler pre-empting its own threads
    r"|^(wait4|waitid)\("                     # never seen, harmless
    r"|^---|^\+\+\+|^\s*$|<unfinished|resumed>"
)


def seam_build(chk):
    out = os.path.join(chk.BUILD, "seam")
    os.makedirs(out, exist_ok=True)
    p = subprocess.run([sys.executable, os.path.join(chk.VERIF, "overlays", "gen_std_overlay.py"), out],
                       env=chk.GOENV, stdout=subprocess.PIPE, stderr=subprocess.STDOUT, text=True)
    if p.returncode != 0:
        chk.log("overlay generation failed:\n" + p.stdout)
        return None
    overlay = p.stdout.strip().splitlines()[-1]
    return chk.build(variant="seam", tags="verif verifseam", overlay=overlay)


def prebuild(chk):
    return seam_build(chk) is not None


def strace_pass(chk, binary, m):
    """One free-running worker under strace; everything between the two marker calls is linting only."""
    tmp = os.path.join(chk.BUILD, "partials", "C05io")
    os.makedirs(tmp, exist_ok=True)
    log = os.path.join(tmp, "strace.log")
    out = os.path.join(tmp, "p.json")
    for f in (log, out):
        if os.path.exists(f):
            os.remove(f)
    cmd = ["strace", "-f", "-qq", "-e", "trace=%file,%network,%process,%ipc", "-o", log,
           binary, "run", "C05io", "-out", out]
    env = dict(chk.GOENV)
    env["GOMAXPROCS"] = "4"
    p = subprocess.run(cmd, env=env, stdout=subprocess.PIPE, stderr=subprocess.STDOUT, text=True, cwd=chk.VERIF)
    if p.returncode != 0 or not os.path.exists(out) or not os.path.exists(log):
        m["internal"].append("strace pass failed (rc=%s): %s" % (p.returncode, p.stdout[-500:]))
        return
    part = json.load(open(out))
    for k, v in (part.get("violations") or {}).items():
        m["violations"][k] = v
    for k, v in (part.get("counters") or {}).items():
        m["counters"]["io_" + k if not k.startswith("io_") else k] = v
    inside, seen_begin, seen_end, n_inside, offenders = False, False, False, 0, []
    for line in open(log, errors="replace"):
        body = re.sub(r"^\d+\s+", "", line.rstrip("\n"))
        if "/verif-marker-begin" in body:
            inside, seen_begin = True, True
            continue
        if "/verif-marker-end" in body:
            inside, seen_end = False, True
            continue
        if not inside:
            continue
        n_inside += 1
        if ALLOWED_BETWEEN_MARKERS.search(body):
            continue
        offenders.append(body[:200])
    m["counters"]["io_syscalls_between_markers"] = n_inside
    if not (seen_begin and seen_end):
        m["internal"].append("strace markers not found (begin=%s end=%s)" % (seen_begin, seen_end))
        return
    m["notes"].append("strace: %d file/network/process/ipc system calls between the markers, %d not allowed" % (n_inside, len(offenders)))
    if offenders:
        kinds = sorted({o.split("(")[0] for o in offenders})
        m["violations"]["C05|io|" + "+".join(kinds)[:80]] = {
            "key": "C05|io|" + "+".join(kinds)[:80],
            "what": "linting performed file/network/process system calls: " + "; ".join(offenders[:5]),
            "replay": {"op": "io", "syscalls": offenders[:40]}, "count": len(offenders)}


def first_object_pass(chk, binary, m, tier):
    """One fresh process per first object (corpus + KU×EKU templates): object f is linted first, then a fixed
    probe set. All processes must produce the same probe tables (first-call-wins caches), and f's own
    fresh verdict is the reference of the saturation history: three more processes lint EVERY object (in
    forward / reverse order / first under a non-default configuration) and then every object again — the second-pass verdicts must equal the fresh ones."""
    from concurrent.futures import ThreadPoolExecutor
    tmp = os.path.join(chk.BUILD, "partials", "C05first")
    os.makedirs(tmp, exist_ok=True)

    def worker(check, args, tag):
        out = os.path.join(tmp, "%s.json" % tag)
        p = subprocess.run([binary, "run", check, "-args", args, "-out", out], env=chk.GOENV,
                           stdout=subprocess.PIPE, stderr=subprocess.STDOUT, text=True)
        if p.returncode != 0 or not os.path.exists(out):
            return None
        d = json.load(open(out))
        os.remove(out)
        return d

    probe0 = worker("C05first", "first=-1", "count")
    nobj = int(((probe0 or {}).get("counters") or {}).get("g_objects_total", 0))
    if nobj == 0:
        m["internal"].append("C05first: cannot count the objects")
        return
    firsts = list(range(nobj))

    tables, fresh = {}, {}
    done = 0
    with ThreadPoolExecutor(max_workers=16) as ex:
        for f, d in zip(firsts, ex.map(lambda f: worker("C05first", "first=%d" % f, "f%d" % f), firsts)):
            if d is None:
                m["internal"].append("C05first worker %d failed" % f)
                continue
            if not (d.get("sets") or {}).get("first_tables"):
                continue
            done += 1
            name = next((n[6:] for n in d.get("notes") or [] if n.startswith("first=")), str(f))
            for member in d["sets"]["first_tables"]:
                probe, h = member.rsplit("|", 1)
                tables.setdefault(probe, {}).setdefault(h, []).append(name)
            for member in d["sets"].get("fresh_tables", []):
                obj, h = member.rsplit("|", 1)
                fresh[obj] = h
    m["counters"]["first_object_processes"] = done
    m["counters"]["transitions"] = m["counters"].get("transitions", 0) + done
    m["counters"]["validated"] = m["counters"].get("validated", 0) + done * len(tables)
    for probe, hs in sorted(tables.items()):
        if len(hs) > 1:
            minority = sorted(hs.items(), key=lambda kv: len(kv[1]))[0]
            k = "C05|history|first_call_wins|" + probe
            m["violations"][k] = {"key": k, "what": "object %s is judged differently when the process linted %s first (%d distinct result tables over %d fresh processes)" % (probe, ", ".join(minority[1][:3]), len(hs), done),
                                  "replay": {"op": "first_object", "probe": probe, "first": minority[1][:5]}, "count": len(minority[1])}
    # saturation histories against the fresh-process verdicts
    compared = 0
    for order in ("fwd", "rev", "cfg"):
        d = worker("C05sat", "order=" + order, "sat_" + order)
        if d is None:
            m["internal"].append("C05sat worker (%s) failed" % order)
            continue
        m["counters"]["transitions"] = m["counters"].get("transitions", 0) + int((d.get("counters") or {}).get("transitions", 0))
        bad = []
        for member in (d.get("sets") or {}).get("sat_tables", []):
            obj, h = member.rsplit("|", 1)
            if obj in fresh:
                compared += 1
                if fresh[obj] != h:
                    bad.append(obj)
        for obj in bad[:12]:
            k = "C05|history|saturation|" + obj
            m["violations"][k] = {"key": k, "what": "object %s is judged differently after the process has linted the whole object set (%s order, %d objects differ) than as the first work of a fresh process" % (obj, order, len(bad)),
                                  "replay": {"op": "saturation", "object": obj, "order": order}, "count": len(bad)}
    m["counters"]["saturation_comparisons"] = compared
    m["counters"]["validated"] = m["counters"].get("validated", 0) + compared
    m["notes"].append("history: %d fresh processes (one per object: corpus + KU×EKU templates), %d saturated verdicts compared with the fresh ones" % (done, compared))


def run(chk, prop, spec, tier, seed, replay):
    t0 = time.time()
    binary = seam_build(chk)
    if not binary:
        return 2
    if replay:
        return subprocess.run([binary, "replay", prop, replay], env=chk.GOENV).returncode

    def post(m, partials):
        # cross-process history tables: one hash per object over all processes
        per = {}
        for member in m["sets"].get("history_tables", ()):
            name, h = member.rsplit("|", 1)
            per.setdefault(name, set()).add(h)
        bad = sorted(n for n, hs in per.items() if len(hs) > 1)
        m["counters"]["history_objects_compared_across_processes"] = len(per)
        for n in bad[:20]:
            k = "C05|history|first_call_differs_across_processes|" + n
            m["violations"][k] = {"key": k, "what": "object %s is judged differently depending on what this process linted first (%d distinct result tables over the worker processes)" % (n, len(per[n])),
                                  "replay": {"op": "history_cross_process", "object": n}, "count": 1}
        strace_pass(chk, binary, m)
        first_object_pass(chk, binary, m, tier)

    return chk.standard_run(binary, prop, spec, tier, seed, t0, post=post)
