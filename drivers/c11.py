"""C11 driver: before the sharded exploration, one *fresh worker process per option document* lints every
seed of the configurable lint's kind under that document as its first and only work (C11ref). The merged
table is the reference for "setting an option changes that lint's behaviour from the next run on": the
exploring processes, which lint the same objects under many configurations in a row, must agree with it.
An in-process reference would share package-level state (memo tables …) with the run it judges."""
import json
import os
import subprocess
import time
from concurrent.futures import ThreadPoolExecutor


def fresh_reference(chk, binary):
    tmp = os.path.join(chk.BUILD, "partials", "C11ref")
    os.makedirs(tmp, exist_ok=True)

    def one(i):
        out = os.path.join(tmp, "d%d.json" % i)
        if os.path.exists(out):
            os.remove(out)
        p = subprocess.run([binary, "run", "C11ref", "-args", "doc=%d" % i, "-out", out], env=chk.GOENV,
                           stdout=subprocess.PIPE, stderr=subprocess.STDOUT, text=True, cwd=chk.VERIF)
        if p.returncode != 0 or not os.path.exists(out):
            return None
        d = json.load(open(out))
        os.remove(out)
        return d

    first = one(-1)
    if first is None:
        return None, 0, ["C11ref worker failed"]
    n = int((first.get("counters") or {}).get("g_option_docs", 0))
    table, internal, states = {}, [], 0
    with ThreadPoolExecutor(max_workers=16) as ex:
        for i, d in enumerate(ex.map(one, range(n))):
            if d is None:
                internal.append("C11ref worker for document %d failed" % i)
                continue
            internal += d.get("internal") or []
            states += int((d.get("counters") or {}).get("states", 0))
            for member in (d.get("sets") or {}).get("c11ref", []):
                key, val = member.rsplit("\x00", 1)
                table[key] = val
    path = os.path.join(tmp, "table.json")
    with open(path, "w") as f:
        json.dump(table, f)
    return path, n, internal, states


def run(chk, prop, spec, tier, seed, replay):
    t0 = time.time()
    binary = chk.build()
    if not binary:
        return 2
    if replay:
        return subprocess.run([binary, "replay", prop, replay], env=chk.GOENV).returncode
    res = fresh_reference(chk, binary)
    if res[0] is None:
        chk.log("INTERNAL: fresh-process reference failed")
        return 2
    path, ndocs, internal, states = res

    def post(m, partials):
        m["internal"] += internal
        m["counters"]["fresh_reference_processes"] = ndocs
        m["counters"]["fresh_reference_lint_runs"] = states
        m["counters"]["transitions"] = m["counters"].get("transitions", 0) + states
        m["notes"].append("fresh-process reference: %d option documents, one process each, %d single-lint runs" % (ndocs, states))

    return chk.standard_run(binary, prop, spec, tier, seed, t0, env_extra={"VERIF_C11_REF": path}, post=post)
