"""C10 driver: (1) generates the scheduler overlay from /repo's current files (sync shim, yields in the
execute loops, yields at every access to a possibly-mutated package-level variable), builds the worker
with it and explores all schedules up to the preemption bound; (2) builds the same harness bodies with
-race and no hooks and lets them run freely under GOMAXPROCS 1, 2 and 16."""
import json
import os
import re
import subprocess
import time


def sched_overlay(chk):
    out = os.path.join(chk.BUILD, "sched")
    os.makedirs(out, exist_ok=True)
    instr = os.path.join(chk.BUILD, "verifinstr")
    p = subprocess.run(["go", "build", "-modfile", chk.modfile(), "-o", instr, "./cmd/verifinstr"], cwd=chk.ENGINE, env=chk.GOENV,
                       stdout=subprocess.PIPE, stderr=subprocess.STDOUT, text=True)
    if p.returncode != 0:
        chk.log("instrumenter build failed:\n" + p.stdout)
        return None
    # regenerate from the tree under test every time
    src = os.path.join(out, "src")
    if os.path.isdir(src):
        import shutil
        shutil.rmtree(src)
    p = subprocess.run([instr, chk.REPO, out, os.path.join(chk.VERIF, "overlays", "verifsync")], env=chk.GOENV,
                       stdout=subprocess.PIPE, stderr=subprocess.STDOUT, text=True)
    if p.returncode != 0:
        chk.log("instrumentation failed:\n" + p.stdout)
        return None
    return os.path.join(out, "overlay.json")


def prebuild(chk):
    ov = sched_overlay(chk)
    ok = ov is not None and chk.build(variant="sched", tags="verif verifsched", overlay=ov) is not None
    ok = chk.build(variant="race", tags="verif", race=True) is not None and ok
    return ok


def race_pass(chk, m, tier):
    binary = chk.build(variant="race", tags="verif", race=True)
    if not binary:
        m["internal"].append("-race build failed")
        return
    tmp = os.path.join(chk.BUILD, "partials", "C10race")
    os.makedirs(tmp, exist_ok=True)
    total_races = 0
    from concurrent.futures import ThreadPoolExecutor

    def one(procs):
        out = os.path.join(tmp, "p%s.json" % procs)
        if os.path.exists(out):
            os.remove(out)
        env = dict(chk.GOENV)
        env["GOMAXPROCS"] = procs
        env["GORACE"] = "halt_on_error=0"
        step = "12" if tier == "quick" else "1"
        p = subprocess.run([binary, "run", "C10race", "-args", "step=" + step, "-out", out], env=env,
                           stdout=subprocess.PIPE, stderr=subprocess.PIPE, text=True, cwd=chk.VERIF)
        return procs, out, p.stderr

    with ThreadPoolExecutor(max_workers=3) as ex:
        results = list(ex.map(one, ("1", "2", "16")))
    for procs, out, stderr in results:
        races = re.findall(r"WARNING: DATA RACE\n(.*?)(?:\n==================|\Z)", stderr, flags=re.S)
        if os.path.exists(out):
            part = json.load(open(out))
            for k, v in (part.get("violations") or {}).items():
                m["violations"][k] = v
            m["counters"]["race_pass_calls_gomaxprocs_" + procs] = (part.get("counters") or {}).get("states", 0)
        elif not races:
            m["internal"].append("race pass (GOMAXPROCS=%s) failed: %s" % (procs, stderr[-400:]))
        for r in races:
            total_races += 1
            # identify the race by the first zlint frame
            frames = re.findall(r"\n\s+(github\.com/zmap/zlint/\S+)\(\)\n\s+(\S+:\d+)", "\n" + r)
            site = frames[0][0].split("/v3/")[-1] if frames else "unknown"
            k = "C10|data_race|" + site
            if k not in m["violations"]:
                m["violations"][k] = {"key": k, "what": "Go race detector (GOMAXPROCS=%s): %s" % (procs, " ".join(r.split())[:600]),
                                      "replay": {"op": "race", "gomaxprocs": procs, "report": r[:4000]}, "count": 0}
            m["violations"][k]["count"] += 1
    m["counters"]["race_reports"] = total_races
    m["notes"].append("free-running -race pass (detector, not an enumeration): GOMAXPROCS 1, 2, 16; %d race reports" % total_races)


def run(chk, prop, spec, tier, seed, replay):
    t0 = time.time()
    ov = sched_overlay(chk)
    if not ov:
        return 2
    binary = chk.build(variant="sched", tags="verif verifsched", overlay=ov)
    if not binary:
        return 2
    census = json.load(open(os.path.join(chk.BUILD, "sched", "census.json")))
    if replay:
        art = json.load(open(replay))
        print("schedule artefact:", json.dumps(art.get("replay"), indent=1)[:2000])
        print("re-run: ./check C10  (the explorer is deterministic: the same schedule is reached again)")
        return 0

    def post(m, partials):
        race_pass(chk, m, tier)

    extra = {"mutable_global_census": census.get("mutable_globals"), "yields_inserted": census.get("yields_inserted"),
             "sync_imports_redirected": census.get("sync_imports_redirected")}
    spec = dict(spec)
    args = dict(spec.get("args", {}))
    if census.get("writer_lock_calls_in_package_lint", 0) == 0:
        # no writer lock anywhere in package lint: read-lock operations never block and commute
        args[tier] = (args.get(tier, "") + ",rlock_coarse=1").strip(",")
    spec["args"] = args
    extra["writer_lock_calls_in_package_lint"] = census.get("writer_lock_calls_in_package_lint", 0)
    return chk.standard_run(binary, prop, spec, tier, seed, t0, post=post, extra_cov=extra,
                            env_extra={"VERIF_SCHED_CENSUS": os.path.join(chk.BUILD, "sched", "census.json")})
