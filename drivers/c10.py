"""C10 driver: (1) generates the scheduler overlay from /repo's current files (sync shim, yields in the
execute loops, yields at every access to a possibly-mutated package-level variable), builds the worker
with it and explores all schedules up to the preemption bound; (2) builds the same harness bodies with
-race and no hooks and lets them run freely under GOMAXPROCS 1, 2 and 16."""
import json
import os
import re
import subprocess
import time


def sched_overlay(chk):
    out = os.path.join(chk.BUILD, "sched")
    os.makedirs(out, exist_ok=True)
    instr = os.path.join(chk.BUILD, "verifinstr")
    p = subprocess.run(["go", "build", "-modfile", chk.modfile(), "-o", instr, "./cmd/verifinstr"], cwd=chk.ENGINE, env=chk.GOENV,
                       stdout=subprocess.PIPE, stderr=subprocess.STDOUT, text=True)
    if p.returncode != 0:
        chk.log("instrumenter build failed:\n" + p.stdout)
        return None
    # regenerate from the tree under test every time
    src = os.path.join(out, "src")
    if os.path.isdir(src):
        import shutil
        shutil.rmtree(src)
    p = subprocess.run([instr, chk.REPO, out, os.path.join(chk.VERIF, "overlays", "verifsync")], env=chk.GOENV,
                       stdout=subprocess.PIPE, stderr=subprocess.STDOUT, text=True)
    if p.returncode != 0:
        chk.log("instrumentation failed:\n" + p.stdout)
        return None
    return os.path.join(out, "overlay.json")


def prebuild(chk):
    ov = sched_overlay(chk)
    ok = ov is not None and chk.build(variant="sched", tags="verif verifsched", overlay=ov) is not None
    ok = chk.build(variant="race", tags="verif", race=True) is not None and ok
    return ok


def race_pass(chk, m, tier, cold_objects=()):
    binary = chk.build(variant="race", tags="verif", race=True)
    if not binary:
        m["internal"].append("-race build failed")
        return
    tmp = os.path.join(chk.BUILD, "partials", "C10race")
    os.makedirs(tmp, exist_ok=True)
    total_races = 0
    from concurrent.futures import ThreadPoolExecutor

    def one(procs):
        out = os.path.join(tmp, "p%s.json" % procs)
        if os.path.exists(out):
            os.remove(out)
        env = dict(chk.GOENV)
        env["GOMAXPROCS"] = procs
        env["GORACE"] = "halt_on_error=0"
        step = "12" if tier == "quick" else "1"
        p = subprocess.run([binary, "run", "C10race", "-args", "step=" + step, "-out", out], env=env,
                           stdout=subprocess.PIPE, stderr=subprocess.PIPE, text=True, cwd=chk.VERIF)
        return procs, out, p.stderr

    def cold(name):
        out = os.path.join(tmp, "cold_%s.json" % re.sub(r"[^A-Za-z0-9]", "_", name))
        if os.path.exists(out):
            os.remove(out)
        env = dict(chk.GOENV)
        env["GOMAXPROCS"] = "16"
        env["GORACE"] = "halt_on_error=0"
        p = subprocess.run([binary, "run", "C10race", "-args", "cold=" + name, "-out", out], env=env,
                           stdout=subprocess.PIPE, stderr=subprocess.PIPE, text=True, cwd=chk.VERIF)
        return "16 cold " + name, out, p.stderr

    with ThreadPoolExecutor(max_workers=3) as ex:
        results = list(ex.map(one, ("1", "2", "16")))
    with ThreadPoolExecutor(max_workers=4) as ex:
        results += list(ex.map(cold, cold_objects))
    m["counters"]["race_pass_cold_start_processes"] = len(cold_objects)
    for procs, out, stderr in results:
        races = re.findall(r"WARNING: DATA RACE\n(.*?)(?:\n==================|\Z)", stderr, flags=re.S)
        if os.path.exists(out):
            part = json.load(open(out))
            for k, v in (part.get("violations") or {}).items():
                m["violations"][k] = v
            ck = "race_pass_calls_gomaxprocs_" + procs.split()[0] + ("_cold" if " cold " in procs else "")
            m["counters"][ck] = m["counters"].get(ck, 0) + (part.get("counters") or {}).get("states", 0)
        elif not races:
            m["internal"].append("race pass (GOMAXPROCS=%s) failed: %s" % (procs, stderr[-400:]))
        for r in races:
            total_races += 1
            # identify the race by the first zlint frame
            frames = re.findall(r"\n\s+(github\.com/zmap/zlint/\S+)\(\)\n\s+(\S+:\d+)", "\n" + r)
            site = frames[0][0].split("/v3/")[-1] if frames else "unknown"
            k = "C10|data_race|" + site
            if k not in m["violations"]:
                m["violations"][k] = {"key": k, "what": "Go race detector (GOMAXPROCS=%s): %s" % (procs, " ".join(r.split())[:600]),
                                      "replay": {"op": "race", "gomaxprocs": procs, "report": r[:4000]}, "count": 0}
            m["violations"][k]["count"] += 1
    m["counters"]["race_reports"] = total_races
    m["notes"].append("free-running -race pass (detector, not an enumeration): GOMAXPROCS 1, 2, 16; %d race reports" % total_races)


def cold_pass(chk, binary, m, tier):
    """Cold-start exploration: every execution in its own fresh process (lazily initialised state is cold),
    base schedule + every schedule with exactly one preemption, for scenarios over a greedy diverse object set."""
    from concurrent.futures import ThreadPoolExecutor
    tmp = os.path.join(chk.BUILD, "partials", "C10cold")
    os.makedirs(tmp, exist_ok=True)
    env = dict(chk.GOENV)
    env["GOMAXPROCS"] = "2"

    def child(tag, args):
        out = os.path.join(tmp, "%s.json" % tag)
        if os.path.exists(out):
            os.remove(out)
        p = subprocess.run([binary, "run", "C10cold", "-args", args, "-out", out], env=env,
                           stdout=subprocess.PIPE, stderr=subprocess.STDOUT, text=True, cwd=chk.VERIF)
        if p.returncode != 0 or not os.path.exists(out):
            return None, p.stdout[-300:]
        d = json.load(open(out))
        os.remove(out)
        return d, ""

    plan, err = child("plan", "mode=plan")
    names = []
    for n in (plan or {}).get("notes") or []:
        if n.startswith("plan:"):
            names = n[5:].split(";")
    if len(names) < 4:
        m["internal"].append("cold-start plan failed: %s" % err)
        return []
    nsame = 10 if tier == "quick" else 24
    pairs = [(i, i) for i in range(min(nsame, len(names)))] + [(0, 1), (1, 0), (2, 3), (3, 2)]
    if tier != "quick":
        pairs += [(0, 2), (2, 0), (0, 3), (3, 0), (1, 2), (2, 1), (1, 3), (3, 1)]
    executions = points_total = 0
    # (a, b, kind): kind "" = lint a ∥ lint b; the mixed kinds put the process's very first listing (incl. WriteJSON) /
    # Filter next to a lint run, or next to each other — on the GLOBAL registry, which only a fresh process has cold
    scen = [(a, b, "") for (a, b) in pairs] + [(0, 1, "lj"), (0, 1, "lf"), (0, 1, "jj"), (0, 1, "fj")]
    if tier != "quick":
        scen += [(1, 0, "lj"), (2, 0, "lj"), (3, 0, "lj"), (1, 0, "lf"), (2, 0, "lf")]
    for si, (a, b, kind) in enumerate(scen):
        objs = names[a] + ";" + names[b] + (",kind=" + kind if kind else "")
        base, err = child("s%d_base" % si, "mode=exec,objs=%s" % objs)
        if base is None:
            m["internal"].append("cold-start base execution failed: %s" % err)
            continue
        pts = []
        for n in base.get("notes") or []:
            if n.startswith("points:"):
                pts = [x for x in n[7:].split(",") if x]
        work = []
        for i, pt in enumerate(pts):
            nen, still = int(pt[:-1]), pt[-1] == "s"
            if still:
                for alt in range(1, nen):
                    work.append((i, alt))
        results = [base]
        with ThreadPoolExecutor(max_workers=16) as ex:
            for d, err in ex.map(lambda w: child("s%d_%d_%d" % (si, w[0], w[1]), "mode=exec,objs=%s,pre=%d:%d" % (objs, w[0], w[1])), work):
                if d is None:
                    m["internal"].append("cold-start execution failed: %s" % err)
                else:
                    results.append(d)
        for d in results:
            executions += 1
            points_total += int((d.get("counters") or {}).get("transitions", 0))
            m["internal"] += d.get("internal") or []
            for k, v in (d.get("violations") or {}).items():
                if k in m["violations"]:
                    m["violations"][k]["count"] += v["count"]
                else:
                    m["violations"][k] = v
        what = {"": "lint %s ∥ lint %s" % (names[a], names[b]), "lj": "lint %s ∥ first listing+WriteJSON" % names[a], "lf": "lint %s ∥ first Filter" % names[a],
                "jj": "first listing ∥ listing", "fj": "first Filter ∥ first listing"}[kind]
        m["tables"].setdefault("scenario_executions", {})["cold start: %s [global registry, fresh process per execution, ≤1 preemption, %d points]" % (what, len(pts))] = len(results)
    m["counters"]["cold_start_executions"] = executions
    m["counters"]["states"] = m["counters"].get("states", 0) + executions
    m["counters"]["validated"] = m["counters"].get("validated", 0) + executions
    m["counters"]["transitions"] = m["counters"].get("transitions", 0) + points_total
    m["notes"].append("cold-start exploration: %d scenarios, %d executions, each in a fresh process (base schedule + every single preemption)" % (len(scen), executions))
    return names


def run(chk, prop, spec, tier, seed, replay):
    t0 = time.time()
    ov = sched_overlay(chk)
    if not ov:
        return 2
    binary = chk.build(variant="sched", tags="verif verifsched", overlay=ov)
    if not binary:
        return 2
    census = json.load(open(os.path.join(chk.BUILD, "sched", "census.json")))
    if replay:
        art = json.load(open(replay))
        print("schedule artefact:", json.dumps(art.get("replay"), indent=1)[:2000])
        print("re-run: ./check C10  (the explorer is deterministic: the same schedule is reached again)")
        return 0

    def post(m, partials):
        names = cold_pass(chk, binary, m, tier) or []
        race_pass(chk, m, tier, cold_objects=names)

    extra = {"mutable_global_census": census.get("mutable_globals"), "yields_inserted": census.get("yields_inserted"),
             "sync_imports_redirected": census.get("sync_imports_redirected")}
    spec = dict(spec)
    args = dict(spec.get("args", {}))
    if census.get("writer_lock_calls_in_package_lint", 0) == 0:
        # no writer lock anywhere in package lint: read-lock operations never block and commute
        args[tier] = (args.get(tier, "") + ",rlock_coarse=1").strip(",")
    spec["args"] = args
    extra["writer_lock_calls_in_package_lint"] = census.get("writer_lock_calls_in_package_lint", 0)
    return chk.standard_run(binary, prop, spec, tier, seed, t0, post=post, extra_cov=extra,
                            env_extra={"VERIF_SCHED_CENSUS": os.path.join(chk.BUILD, "sched", "census.json")})
