// Package keys holds throw-away RSA keys of exact bit sizes, committed so that
// re-signed (self-signed) templates are the same on every run.
package keys

import (
	"crypto"
	"crypto/rand"
	"crypto/rsa"
	"crypto/sha256"
	"crypto/x509"
	"embed"
	"encoding/pem"
	"fmt"
)

//go:embed *.pem
var fs embed.FS

// RSA returns the committed key of the given modulus size (1023, 1024, 2047, 2048).
func RSA(bits int) *rsa.PrivateKey {
	b, err := fs.ReadFile(fmt.Sprintf("rsa%d.pem", bits))
	if err != nil {
		panic(err)
	}
	blk, _ := pem.Decode(b)
	if k, err := x509.ParsePKCS1PrivateKey(blk.Bytes); err == nil {
		return k
	}
	k, err := x509.ParsePKCS8PrivateKey(blk.Bytes)
	if err != nil {
		panic(err)
	}
	return k.(*rsa.PrivateKey)
}

// SignSHA256RSA signs tbs with PKCS#1 v1.5 / SHA-256 (deterministic).
func SignSHA256RSA(k *rsa.PrivateKey, tbs []byte) []byte {
	h := sha256.Sum256(tbs)
	s, err := rsa.SignPKCS1v15(rand.Reader, k, crypto.SHA256, h[:])
	if err != nil {
		panic(err)
	}
	return s
}
