// verifinstr generates the scheduler overlay from the CURRENT files of the
// tree under test (nothing in /repo is modified):
//
//  1. the sync shim package is added as the virtual package v3/lint/verifsync;
//  2. every instrumented file that imports "sync" gets that import redirected to the shim;
//  3. every iteration of the execute* loops of v3/resultset.go gets a Yield;
//  4. mutable-global census: every package-level variable of v3, v3/lint, v3/util and v3/lints/*
//     that is syntactically written outside init() and declarations (assigned, inc/dec'd,
//     address-taken, element- or field-assigned, appended to, passed to sort.*/copy) is recorded, and
//     a Yield is inserted before every statement that references one — the scheduler may pre-empt
//     exactly where shared mutable state is touched.
//
// usage: verifinstr <repo> <outdir> <shim-src-dir>   → writes <outdir>/overlay.json and census.json
package main

import (
	"bytes"
	"encoding/json"
	"fmt"
	"go/ast"
	"go/format"
	"go/parser"
	"go/token"
	"os"
	"path/filepath"
	"sort"
	"strconv"
	"strings"
)

const shimPath = "github.com/zmap/zlint/v3/lint/verifsync"

type census struct {
	Mutable map[string][]string `json:"mutable_globals"` // package dir → variable names
	Yields  int                 `json:"yields_inserted"`
	Files   int                 `json:"files_rewritten"`
	SyncRedirects []string      `json:"sync_imports_redirected"`
	YieldFiles    []string      `json:"files_with_yields"`
	WriterLocks   int           `json:"writer_lock_calls_in_package_lint"`
}

func main() {
	if len(os.Args) < 4 {
		fmt.Fprintln(os.Stderr, "usage: verifinstr <repo> <outdir> <shim-src-dir>")
		os.Exit(2)
	}
	repo, out, shim := os.Args[1], os.Args[2], os.Args[3]
	out, _ = filepath.Abs(out)
	root := filepath.Join(repo, "v3")
	replace := map[string]string{}
	cen := &census{Mutable: map[string][]string{}}
	// 1. shim package
	shimFiles, _ := filepath.Glob(filepath.Join(shim, "*.go.txt"))
	for _, f := range shimFiles {
		dst := filepath.Join(root, "lint", "verifsync", strings.TrimSuffix(filepath.Base(f), ".txt"))
		abs, _ := filepath.Abs(f)
		replace[dst] = abs
	}
	dirs := []string{root, filepath.Join(root, "lint"), filepath.Join(root, "util")}
	lds, _ := os.ReadDir(filepath.Join(root, "lints"))
	for _, d := range lds {
		if d.IsDir() {
			dirs = append(dirs, filepath.Join(root, "lints", d.Name()))
		}
	}
	for _, dir := range dirs {
		files, _ := filepath.Glob(filepath.Join(dir, "*.go"))
		fset := token.NewFileSet()
		var parsed []*ast.File
		var names []string
		for _, f := range files {
			if strings.HasSuffix(f, "_test.go") {
				continue
			}
			af, err := parser.ParseFile(fset, f, nil, parser.ParseComments)
			if err != nil {
				fmt.Fprintln(os.Stderr, "parse:", err)
				os.Exit(1)
			}
			parsed = append(parsed, af)
			names = append(names, f)
		}
		// package-level variables
		globals := map[string]bool{}
		// census of syntactic writes outside init
		mutable := map[string]bool{}
		// mentionsSync: the declared type (or the type of the initialiser) names package sync or sync/atomic —
		// sync.Map, sync.Pool, sync.Once, atomic.Pointer[T], atomic.Bool …: state that exists to be written
		// concurrently, whatever the method names are
		mentionsSync := func(e ast.Node) bool {
			found := false
			if e == nil {
				return false
			}
			ast.Inspect(e, func(n ast.Node) bool {
				if sel, ok := n.(*ast.SelectorExpr); ok {
					if id, ok := sel.X.(*ast.Ident); ok && (id.Name == "sync" || id.Name == "atomic") {
						found = true
					}
				}
				return !found
			})
			return found
		}
		for _, af := range parsed {
			for _, d := range af.Decls {
				gd, ok := d.(*ast.GenDecl)
				if !ok || gd.Tok != token.VAR {
					continue
				}
				for _, sp := range gd.Specs {
					vs := sp.(*ast.ValueSpec)
					syncTyped := vs.Type != nil && mentionsSync(vs.Type)
					for _, v := range vs.Values {
						if cl, ok := v.(*ast.CompositeLit); ok && cl.Type != nil && mentionsSync(cl.Type) {
							syncTyped = true
						}
						if ue, ok := v.(*ast.UnaryExpr); ok {
							if cl, ok := ue.X.(*ast.CompositeLit); ok && cl.Type != nil && mentionsSync(cl.Type) {
								syncTyped = true
							}
						}
					}
					for _, n := range vs.Names {
						if n.Name != "_" {
							globals[n.Name] = true
							if syncTyped && af.Name.Name != "lint" { // package lint's locks go through the shim instead
								mutable[n.Name] = true
							}
						}
					}
				}
			}
		}
		rootIdent := func(e ast.Expr) string {
			for {
				switch x := e.(type) {
				case *ast.Ident:
					return x.Name
				case *ast.IndexExpr:
					e = x.X
				case *ast.SelectorExpr:
					e = x.X
				case *ast.StarExpr:
					e = x.X
				case *ast.ParenExpr:
					e = x.X
				case *ast.SliceExpr:
					e = x.X
				default:
					return ""
				}
			}
		}
		for _, af := range parsed {
			for _, d := range af.Decls {
				fd, ok := d.(*ast.FuncDecl)
				if !ok || fd.Body == nil || (fd.Recv == nil && fd.Name.Name == "init") {
					continue
				}
				// names shadowed by parameters / receivers are still over-approximated as globals: harmless
				ast.Inspect(fd.Body, func(n ast.Node) bool {
					mark := func(e ast.Expr) {
						if id := rootIdent(e); id != "" && globals[id] {
							mutable[id] = true
						}
					}
					switch x := n.(type) {
					case *ast.AssignStmt:
						if x.Tok != token.DEFINE {
							for _, l := range x.Lhs {
								mark(l)
							}
						}
					case *ast.IncDecStmt:
						mark(x.X)
					case *ast.UnaryExpr:
						if x.Op == token.AND {
							mark(x.X)
						}
					case *ast.RangeStmt:
						if x.Tok == token.ASSIGN {
							if x.Key != nil {
								mark(x.Key)
							}
							if x.Value != nil {
								mark(x.Value)
							}
						}
					case *ast.CallExpr:
						if sel, ok := x.Fun.(*ast.SelectorExpr); ok {
							if pk, ok := sel.X.(*ast.Ident); ok && pk.Name == "sort" && len(x.Args) > 0 {
								mark(x.Args[0])
							}
						}
						if id, ok := x.Fun.(*ast.Ident); ok && (id.Name == "copy" || id.Name == "clear" || id.Name == "delete") && len(x.Args) > 0 {
							mark(x.Args[0])
						}
						// methods that write by their very name, called on something rooted in a package-level variable
						if sel, ok := x.Fun.(*ast.SelectorExpr); ok {
							switch sel.Sel.Name {
							case "Store", "Swap", "CompareAndSwap", "LoadOrStore", "LoadAndDelete", "Delete", "Put", "Add", "Set", "Reset", "Write", "WriteString", "Grow", "Truncate":
								mark(sel.X)
							}
						}
					}
					return true
				})
			}
		}
		rel, _ := filepath.Rel(root, dir)
		if len(mutable) > 0 {
			var l []string
			for k := range mutable {
				l = append(l, k)
			}
			sort.Strings(l)
			cen.Mutable[rel] = l
		}
		// rewrite files
		for i, af := range parsed {
			changed := false
			needShim := false
			base := filepath.Base(names[i])
			// 2. sync import redirect in package lint
			if af.Name.Name == "lint" {
				ast.Inspect(af, func(n ast.Node) bool {
					if c, ok := n.(*ast.CallExpr); ok {
						if sel, ok := c.Fun.(*ast.SelectorExpr); ok && len(c.Args) == 0 {
							switch sel.Sel.Name {
							case "Lock", "TryLock":
								cen.WriterLocks++
							}
						}
					}
					return true
				})
			}
			// every instrumented package (not only lint): a real sync.Mutex / Once taken by a thread that the
			// cooperative scheduler then pre-empts would block the next thread for real and hang the run
			for _, im := range af.Imports {
				if p, _ := strconv.Unquote(im.Path.Value); p == "sync" {
					im.Path.Value = strconv.Quote(shimPath)
					im.Name = ast.NewIdent("sync")
					changed = true
					r, _ := filepath.Rel(root, names[i])
					cen.SyncRedirects = append(cen.SyncRedirects, r)
				}
			}
			yield := func(pos token.Pos) ast.Stmt {
				p := fset.Position(pos)
				needShim = true
				cen.Yields++
				return &ast.ExprStmt{X: &ast.CallExpr{
					Fun:  &ast.SelectorExpr{X: ast.NewIdent("verifsync"), Sel: ast.NewIdent("Yield")},
					Args: []ast.Expr{&ast.BasicLit{Kind: token.STRING, Value: strconv.Quote(fmt.Sprintf("%s:%d", base, p.Line))}},
				}}
			}
			// 3. execute* loops of resultset.go
			if dir == root && base == "resultset.go" {
				for _, d := range af.Decls {
					fd, ok := d.(*ast.FuncDecl)
					if !ok || fd.Body == nil || !strings.HasPrefix(fd.Name.Name, "execute") {
						continue
					}
					ast.Inspect(fd.Body, func(n ast.Node) bool {
						switch x := n.(type) {
						case *ast.RangeStmt:
							x.Body.List = append([]ast.Stmt{yield(x.Pos())}, x.Body.List...)
							changed = true
						case *ast.ForStmt:
							x.Body.List = append([]ast.Stmt{yield(x.Pos())}, x.Body.List...)
							changed = true
						}
						return true
					})
				}
			}
			// 4. yields before statements touching mutable globals
			if len(mutable) > 0 {
				refs := func(n ast.Node) bool {
					found := false
					ast.Inspect(n, func(c ast.Node) bool {
						if found {
							return false
						}
						switch x := c.(type) {
						case *ast.BlockStmt:
							return false // nested blocks are handled on their own
						case *ast.FuncLit:
							return false
						case *ast.Ident:
							if mutable[x.Name] {
								found = true
							}
						}
						return true
					})
					return found
				}
				var rewriteList func(list []ast.Stmt) []ast.Stmt
				var rewriteStmt func(s ast.Stmt)
				rewriteStmt = func(s ast.Stmt) {
					switch x := s.(type) {
					case *ast.BlockStmt:
						x.List = rewriteList(x.List)
					case *ast.IfStmt:
						rewriteStmt(x.Body)
						if x.Else != nil {
							rewriteStmt(x.Else)
						}
					case *ast.ForStmt:
						rewriteStmt(x.Body)
					case *ast.RangeStmt:
						rewriteStmt(x.Body)
					case *ast.SwitchStmt:
						rewriteStmt(x.Body)
					case *ast.TypeSwitchStmt:
						rewriteStmt(x.Body)
					case *ast.SelectStmt:
						rewriteStmt(x.Body)
					case *ast.CaseClause:
						x.Body = rewriteList(x.Body)
					case *ast.CommClause:
						x.Body = rewriteList(x.Body)
					case *ast.LabeledStmt:
						rewriteStmt(x.Stmt)
					}
				}
				headerRefs := func(s ast.Stmt) bool {
					switch x := s.(type) {
					case *ast.IfStmt:
						return (x.Init != nil && refs(x.Init)) || refs(x.Cond)
					case *ast.ForStmt:
						return (x.Init != nil && refs(x.Init)) || (x.Cond != nil && refs(x.Cond)) || (x.Post != nil && refs(x.Post))
					case *ast.RangeStmt:
						return refs(x.X)
					case *ast.SwitchStmt:
						return (x.Init != nil && refs(x.Init)) || (x.Tag != nil && refs(x.Tag))
					case *ast.TypeSwitchStmt, *ast.SelectStmt, *ast.BlockStmt, *ast.LabeledStmt:
						return false
					case *ast.CaseClause, *ast.CommClause:
						return false
					}
					return refs(s)
				}
				rewriteList = func(list []ast.Stmt) []ast.Stmt {
					var out []ast.Stmt
					for _, s := range list {
						if headerRefs(s) {
							out = append(out, yield(s.Pos()))
							changed = true
						}
						rewriteStmt(s)
						out = append(out, s)
					}
					return out
				}
				for _, d := range af.Decls {
					fd, ok := d.(*ast.FuncDecl)
					if !ok || fd.Body == nil || (fd.Recv == nil && fd.Name.Name == "init") {
						continue
					}
					fd.Body.List = rewriteList(fd.Body.List)
				}
			}
			if !changed {
				continue
			}
			if needShim {
				spec := &ast.ImportSpec{Name: ast.NewIdent("verifsync"), Path: &ast.BasicLit{Kind: token.STRING, Value: strconv.Quote(shimPath)}}
				gd := &ast.GenDecl{Tok: token.IMPORT, Specs: []ast.Spec{spec}}
				af.Decls = append([]ast.Decl{gd}, af.Decls...)
				af.Imports = append(af.Imports, spec)
			}
			var buf bytes.Buffer
			// comments are dropped from rewritten copies: positions of inserted nodes would misplace them
			af.Comments = nil
			if err := format.Node(&buf, fset, af); err != nil {
				fmt.Fprintln(os.Stderr, "format:", names[i], err)
				os.Exit(1)
			}
			r, _ := filepath.Rel(root, names[i])
			if needShim {
				cen.YieldFiles = append(cen.YieldFiles, r)
			}
			dst := filepath.Join(out, "src", r)
			os.MkdirAll(filepath.Dir(dst), 0o755)
			if err := os.WriteFile(dst, buf.Bytes(), 0o644); err != nil {
				fmt.Fprintln(os.Stderr, err)
				os.Exit(1)
			}
			abs, _ := filepath.Abs(names[i])
			replace[abs] = dst
			cen.Files++
		}
	}
	os.MkdirAll(out, 0o755)
	b, _ := json.MarshalIndent(map[string]interface{}{"Replace": replace}, "", " ")
	os.WriteFile(filepath.Join(out, "overlay.json"), b, 0o644)
	cb, _ := json.MarshalIndent(cen, "", " ")
	os.WriteFile(filepath.Join(out, "census.json"), cb, 0o644)
	fmt.Println(filepath.Join(out, "overlay.json"))
}
