// verifrun is the worker binary: one process per shard, single-threaded logic.
//
//	verifrun run <ID> -tier quick -shard 0 -nshards 16 -out partial.json
//	verifrun replay <ID> <artefact.json>
package main

import (
	"encoding/json"
	"flag"
	"fmt"
	"os"
	"strings"
	"time"

	"verif/core"
	"verif/oracle"
)

func main() {
	if len(os.Args) < 3 {
		fmt.Fprintln(os.Stderr, "usage: verifrun run|replay <ID> ...")
		os.Exit(2)
	}
	mode, id := os.Args[1], os.Args[2]
	switch mode {
	case "reghist": // verifrun reghist <op,op,...> <rotation>: one registry history in this fresh process
		rot := 0
		if len(os.Args) > 3 {
			fmt.Sscan(os.Args[3], &rot)
		}
		var objs []string
		if len(os.Args) > 4 && os.Args[4] != "" {
			objs = strings.Split(os.Args[4], ";")
		}
		oracle.RunRegHistory(strings.Split(id, ","), rot, objs)
	case "run":
		fs := flag.NewFlagSet("run", flag.ExitOnError)
		tier := fs.String("tier", "quick", "")
		shard := fs.Int("shard", 0, "")
		nshards := fs.Int("nshards", 1, "")
		out := fs.String("out", "", "")
		seed := fs.Int64("seed", 1, "")
		deadline := fs.Duration("deadline", 0, "")
		args := fs.String("args", "", "k=v,k=v")
		_ = fs.Parse(os.Args[3:])
		chk := core.Checks[id]
		if chk == nil {
			fmt.Fprintln(os.Stderr, "unknown check", id)
			os.Exit(2)
		}
		ctx := &core.Ctx{Property: id, Tier: *tier, Shard: *shard, NShards: *nshards, Seed: *seed, Args: map[string]string{}}
		if *deadline > 0 {
			ctx.Deadline = time.Now().Add(*deadline)
		}
		for _, kv := range strings.Split(*args, ",") {
			if i := strings.IndexByte(kv, '='); i > 0 {
				ctx.Args[kv[:i]] = kv[i+1:]
			}
		}
		rep := core.NewReport(id, *shard)
		t0 := time.Now()
		if *out == "" {
			*out = "/dev/stdout"
		}
		go watchdog(id, rep, *out)
		chk(ctx, rep)
		rep.WallS = time.Since(t0).Seconds()
		if *out == "" {
			*out = "/dev/stdout"
		}
		if err := rep.Write(*out); err != nil {
			fmt.Fprintln(os.Stderr, err)
			os.Exit(2)
		}
	case "replay":
		if len(os.Args) < 4 {
			os.Exit(2)
		}
		rp := core.Replayers[id]
		if rp == nil {
			fmt.Fprintln(os.Stderr, "no replayer for", id)
			os.Exit(2)
		}
		b, err := os.ReadFile(os.Args[3])
		if err != nil {
			fmt.Fprintln(os.Stderr, err)
			os.Exit(2)
		}
		var art struct {
			Replay map[string]interface{} `json:"replay"`
		}
		if err := json.Unmarshal(b, &art); err != nil {
			fmt.Fprintln(os.Stderr, err)
			os.Exit(2)
		}
		go func() { // a replay that does not return is the reproduction of a hang
			time.Sleep(hangLimit())
			fmt.Println("REPRODUCED: hang: the replay did not return within", hangLimit())
			os.Exit(1)
		}()
		what, err := rp(art.Replay)
		if err != nil {
			fmt.Fprintln(os.Stderr, "replay error:", err)
			os.Exit(2)
		}
		if what != "" {
			fmt.Println("REPRODUCED:", what)
			os.Exit(1)
		}
		fmt.Println("not reproduced")
	}
}

// the limit is read once, before any check runs: the C05 seam counts every environment access of the process
var hangLimitValue = func() time.Duration {
	if d, err := time.ParseDuration(os.Getenv("VERIF_HANG")); err == nil && d > 0 {
		return d
	}
	return 60 * time.Second
}()

func hangLimit() time.Duration { return hangLimitValue }

// watchdog: a state that stays in flight for longer than the limit (a full-registry lint run costs
// about a millisecond) is a hang. "Returns normally ... no hang" is part of C01, so there it is a
// violation with the state as artefact; in every other check it is an internal error of the run
// (exit 2), never an alarm. Either way the worker ends instead of blocking the driver forever.
func watchdog(id string, rep *core.Report, out string) {
	for {
		time.Sleep(2 * time.Second)
		kind, replay, ok := core.Hung(hangLimit())
		if !ok {
			continue
		}
		if id == "C01" {
			rep.Violate("C01|"+kind+"|hang", fmt.Sprintf("linting did not return within %s (normal cost ≈ 1 ms)", hangLimit()), replay)
		} else {
			rep.InternalError("state in flight for more than %s (hang) — C01's business: %v", hangLimit(), replay["path"])
		}
		_ = rep.Write(out)
		os.Exit(0)
	}
}
