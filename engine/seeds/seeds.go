// Package seeds loads the seed objects of the explorer from the repository's
// own corpus (v3/testdata) — always from the working tree under test.
package seeds

import (
	"encoding/base64"
	"encoding/pem"
	"os"
	"path/filepath"
	"sort"
	"strings"

	"github.com/zmap/zcrypto/x509"
	"golang.org/x/crypto/ocsp"
)

type Kind int

const (
	Cert Kind = iota
	CRL
	OCSP
)

func (k Kind) String() string { return [...]string{"cert", "crl", "ocsp"}[k] }

type Seed struct {
	Name string
	Kind Kind
	DER  []byte
}

// RepoDir returns the repository under test (VERIF_REPO, default /repo).
func RepoDir() string {
	if d := os.Getenv("VERIF_REPO"); d != "" {
		return d
	}
	return "/repo"
}

// ParseCert parses with the real parser under recover (zcrypto itself panics
// on some hostile inputs; that is outside zlint and ends the branch).
func ParseCert(b []byte) (c *x509.Certificate, err error) {
	defer func() {
		if r := recover(); r != nil {
			c, err = nil, errParserPanic
		}
	}()
	return x509.ParseCertificate(b)
}

func ParseCRL(b []byte) (c *x509.RevocationList, err error) {
	defer func() {
		if r := recover(); r != nil {
			c, err = nil, errParserPanic
		}
	}()
	return x509.ParseRevocationList(b)
}

func ParseOCSP(b []byte) (c *ocsp.Response, err error) {
	defer func() {
		if r := recover(); r != nil {
			c, err = nil, errParserPanic
		}
	}()
	return ocsp.ParseResponse(b, nil)
}

type parserPanic struct{}

func (parserPanic) Error() string { return "parser panicked" }

var errParserPanic = parserPanic{}

// LoadNamed returns the named corpus objects only (names relative to v3/testdata) without reading or parsing
// the rest of the corpus: for workers that are started thousands of times.
func LoadNamed(names ...string) []Seed {
	dir := filepath.Join(RepoDir(), "v3", "testdata")
	var out []Seed
	for _, name := range names {
		data, err := os.ReadFile(filepath.Join(dir, filepath.FromSlash(name)))
		if err != nil {
			continue
		}
		s := string(data)
		switch {
		case strings.Contains(s, "-BEGIN CERTIFICATE-"):
			rest := data
			for {
				var blk *pem.Block
				blk, rest = pem.Decode(rest)
				if blk == nil {
					break
				}
				if blk.Type == "CERTIFICATE" {
					if _, err := ParseCert(blk.Bytes); err == nil {
						out = append(out, Seed{name, Cert, blk.Bytes})
					}
					break
				}
			}
		case strings.Contains(s, "-BEGIN X509 CRL-"):
			if blk, _ := pem.Decode(data); blk != nil {
				if _, err := ParseCRL(blk.Bytes); err == nil {
					out = append(out, Seed{name, CRL, blk.Bytes})
				}
			}
		default:
			if raw, err := base64.StdEncoding.DecodeString(strings.TrimSpace(s)); err == nil {
				if _, err := ParseOCSP(raw); err == nil {
					out = append(out, Seed{name, OCSP, raw})
				}
			}
		}
	}
	return out
}

// Load returns every parseable object of the corpus (v3/testdata and its
// sub-directories: code_signing/, smime/ …), sorted by name. A seed's name is
// its path relative to v3/testdata.
func Load() []Seed {
	dir := filepath.Join(RepoDir(), "v3", "testdata")
	var out []Seed
	_ = filepath.WalkDir(dir, func(path string, e os.DirEntry, err error) error {
		if err != nil || e.IsDir() {
			return nil
		}
		name, _ := filepath.Rel(dir, path)
		data, err := os.ReadFile(path)
		if err != nil {
			return nil
		}
		s := string(data)
		switch {
		case strings.Contains(s, "-BEGIN CERTIFICATE-"):
			rest := data
			for {
				var blk *pem.Block
				blk, rest = pem.Decode(rest)
				if blk == nil {
					break
				}
				if blk.Type == "CERTIFICATE" {
					if _, err := ParseCert(blk.Bytes); err == nil {
						out = append(out, Seed{name, Cert, blk.Bytes})
					}
					break
				}
			}
		case strings.Contains(s, "-BEGIN X509 CRL-"):
			blk, _ := pem.Decode(data)
			if blk != nil {
				if _, err := ParseCRL(blk.Bytes); err == nil {
					out = append(out, Seed{name, CRL, blk.Bytes})
				}
			}
		default:
			raw, err := base64.StdEncoding.DecodeString(strings.TrimSpace(s))
			if err != nil {
				return nil
			}
			if _, err := ParseOCSP(raw); err == nil {
				out = append(out, Seed{name, OCSP, raw})
			}
		}
		return nil
	})
	sort.Slice(out, func(i, j int) bool { return out[i].Name < out[j].Name })
	return out
}
