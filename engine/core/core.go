// Package core holds what every check shares: the worker context (tier, shard),
// the partial report a worker process writes, and the registry of checks.
package core

import (
	"crypto/sha256"
	"encoding/binary"
	"encoding/json"
	"fmt"
	"os"
	"sort"
	"strings"
	"sync/atomic"
	"time"
)

type Ctx struct {
	Property string
	Tier     string // quick | thorough
	Shard    int
	NShards  int
	Seed     int64
	Deadline time.Time // internal deadline: stop, exhaustive=false, exit 0
	Args     map[string]string
}

func (c *Ctx) Quick() bool { return c.Tier != "thorough" }

// Mine reports whether the state with this key belongs to this shard.
func (c *Ctx) Mine(h uint64) bool { return c.NShards <= 1 || int(h%uint64(c.NShards)) == c.Shard }

// Expired reports whether the internal deadline has passed.
func (c *Ctx) Expired() bool { return !c.Deadline.IsZero() && time.Now().After(c.Deadline) }

func Hash64(b []byte) uint64 {
	s := sha256.Sum256(b)
	return binary.BigEndian.Uint64(s[:8])
}

func HashStr(s string) uint64 { return Hash64([]byte(s)) }

type Violation struct {
	Key    string                 `json:"key"`  // stable identity, matched against known_findings.jsonl
	What   string                 `json:"what"` // one-line description
	Replay map[string]interface{} `json:"replay"`
	Count  int64                  `json:"count"`
}

type Report struct {
	Property   string                     `json:"property"`
	Shard      int                        `json:"shard"`
	Counters   map[string]int64           `json:"counters"`
	Sets       map[string]map[string]bool `json:"-"`
	SetsOut    map[string][]string        `json:"sets"`
	Samples    []interface{}              `json:"samples"`
	Violations map[string]*Violation      `json:"violations"`
	Holes      []string                   `json:"holes"` // coverage holes (not violations)
	Notes      []string                   `json:"notes"`
	Caps       []string                   `json:"caps"` // caps/deadlines hit ⇒ exhaustive=false
	Tables     map[string]map[string]int64 `json:"tables"`
	Internal   []string                   `json:"internal"` // internal errors: exit 2, never an alarm
	WallS      float64                    `json:"wall_s"`
}

func NewReport(prop string, shard int) *Report {
	return &Report{Property: prop, Shard: shard, Counters: map[string]int64{}, Sets: map[string]map[string]bool{},
		Violations: map[string]*Violation{}, Tables: map[string]map[string]int64{}}
}

func (r *Report) Inc(k string)            { r.Counters[k]++ }
func (r *Report) Add(k string, n int64)   { r.Counters[k] += n }
func (r *Report) Note(f string, a ...any) { r.Notes = append(r.Notes, fmt.Sprintf(f, a...)) }
func (r *Report) Cap(f string, a ...any)  { r.Caps = append(r.Caps, fmt.Sprintf(f, a...)) }
func (r *Report) Hole(f string, a ...any) { r.Holes = append(r.Holes, fmt.Sprintf(f, a...)) }
func (r *Report) InternalError(f string, a ...any) {
	r.Internal = append(r.Internal, fmt.Sprintf(f, a...))
}

// Tab increments cell (row, col) of a named table (e.g. lint × outcome).
func (r *Report) Tab(table, cell string) {
	t := r.Tables[table]
	if t == nil {
		t = map[string]int64{}
		r.Tables[table] = t
	}
	t[cell]++
}

// SetAdd records a member of a named set whose union over shards is counted.
func (r *Report) SetAdd(set, member string) {
	s := r.Sets[set]
	if s == nil {
		s = map[string]bool{}
		r.Sets[set] = s
	}
	s[member] = true
}

// SetAddHash records a (possibly large) member by 64-bit hash.
func (r *Report) SetAddHash(set string, h uint64) {
	r.SetAdd(set, fmt.Sprintf("%016x", h))
}

func (r *Report) Sample(max int, v interface{}) {
	if len(r.Samples) < max {
		r.Samples = append(r.Samples, v)
	}
}

// Violate records a violation; the first one per key is kept (the explorer
// orders the alphabet simplest-first, so the first is also the shortest).
func (r *Report) Violate(key, what string, replay map[string]interface{}) {
	if v := r.Violations[key]; v != nil {
		v.Count++
		return
	}
	if len(r.Violations) >= 60 {
		// keep the artefact list readable: further distinct keys are folded
		parts := strings.SplitN(key, "|", 3)
		key = strings.Join(parts[:min(2, len(parts))], "|") + "|…more"
		if v := r.Violations[key]; v != nil {
			v.Count++
			return
		}
	}
	r.Violations[key] = &Violation{Key: key, What: what, Replay: replay, Count: 1}
}

func (r *Report) Write(path string) error {
	r.SetsOut = map[string][]string{}
	for k, s := range r.Sets {
		l := make([]string, 0, len(s))
		for m := range s {
			l = append(l, m)
		}
		sort.Strings(l)
		r.SetsOut[k] = l
	}
	b, err := json.Marshal(r)
	if err != nil {
		return err
	}
	return os.WriteFile(path, b, 0o644)
}

// ---- hang watchdog ----------------------------------------------------------
// Enter/Leave bracket the evaluation of one state. The worker's watchdog
// goroutine (cmd/verifrun) polls Current(): a state that has been inside for
// longer than the limit (≈ 10^4 × the normal cost) is a hang.
type inflight struct {
	since  time.Time
	replay func() map[string]interface{}
	kind   string
}

var current atomic.Pointer[inflight]

func Enter(kind string, replay func() map[string]interface{}) {
	current.Store(&inflight{since: time.Now(), replay: replay, kind: kind})
}
func Leave() { current.Store(nil) }

// Hung returns the replay description of the state in flight if it has been
// in flight for longer than limit.
func Hung(limit time.Duration) (kind string, replay map[string]interface{}, ok bool) {
	c := current.Load()
	if c == nil || time.Since(c.since) < limit {
		return "", nil, false
	}
	return c.kind, c.replay(), true
}

// Check is one property's worker entry point.
type Check func(ctx *Ctx, rep *Report)

var Checks = map[string]Check{}

// Replayers re-execute one violation artefact without the explorer; they
// return a non-empty description if the violation reproduces.
type Replayer func(replay map[string]interface{}) (string, error)

var Replayers = map[string]Replayer{}
