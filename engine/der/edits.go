package der

import (
	"bytes"
	"fmt"
)

// The edit alphabet Σ_der (DESIGN.md §2.2). Every edit is applied to one node
// of the tree; ancestors' lengths are recomputed by Encode, so the result is
// always well-formed TLV nesting.

type retag struct {
	name        string
	class, tag  int
	constructed bool
}

var retags = []retag{
	{"UTF8", 0, 12, false}, {"Printable", 0, 19, false}, {"IA5", 0, 22, false},
	{"BMP", 0, 30, false}, {"T61", 0, 20, false}, {"Visible", 0, 26, false},
	{"OCTET", 0, 4, false}, {"BIT", 0, 3, false}, {"INTEGER", 0, 2, false},
	{"NULL", 0, 5, false}, {"OID", 0, 6, false}, {"SEQUENCE", 0, 16, true},
	{"SET", 0, 17, true}, {"UTCTime", 0, 23, false}, {"GeneralizedTime", 0, 24, false},
	{"[0]", 2, 0, false}, {"[1]", 2, 1, false}, {"[2]", 2, 2, false},
	{"[6]", 2, 6, false}, {"[7]", 2, 7, false},
	{"[0]c", 2, 0, true}, {"[1]c", 2, 1, true}, {"[4]c", 2, 4, true},
}

var contents = [][]byte{
	{}, {0x00}, {0xC2}, {0x80}, {0xFF}, {0x2A}, {0x20}, {0x2E}, {0x00, 0x00},
	{0x30, 0x00}, {0x41, 0xC2}, {0xE2, 0x82}, []byte("a@"), []byte("."),
	[]byte("*."), []byte("xn--"), {0x01, 0x02, 0x03},
}

// boundary values for INTEGER leaves (two's complement, minimal encodings): 0, 1, −1, 127, 128, 255, 256, 2^31−1, 2^31,
// 2^32, 2^62, 2^63−1, −2^63, 2^64
var intBoundaries = [][]byte{
	{0x00}, {0x01}, {0xff}, {0x7f}, {0x00, 0x80}, {0x00, 0xff}, {0x01, 0x00}, {0x7f, 0xff, 0xff, 0xff}, {0x00, 0x80, 0x00, 0x00, 0x00},
	{0x01, 0x00, 0x00, 0x00, 0x00}, {0x40, 0, 0, 0, 0, 0, 0, 0}, {0x7f, 0xff, 0xff, 0xff, 0xff, 0xff, 0xff, 0xff}, {0x80, 0, 0, 0, 0, 0, 0, 0},
	{0x01, 0, 0, 0, 0, 0, 0, 0, 0},
}
var intPairA = [][]byte{{0x00}, {0x01}, {0xff}, {0x7f, 0xff, 0xff, 0xff, 0xff, 0xff, 0xff, 0xff}}
var intPairB = [][]byte{{0x00}, {0xff}, {0x40, 0, 0, 0, 0, 0, 0, 0}, {0x7f, 0xff, 0xff, 0xff, 0xff, 0xff, 0xff, 0xff}, {0x80, 0, 0, 0, 0, 0, 0, 0}}

// reduced content alphabets of the compound edit dupMod (it already costs two positions per edit)
var dupModSet = [][]byte{{}, {0x00}, {0xC2}, {0x2A}, {0x20}, {0x2E}, []byte("a@")}
var dupModAppend = [][]byte{{0x00}, {0xC2}, {0x20}, {0x2E}}

func isStringLeaf(n *Node) bool {
	if n.Constructed || n.Wrapped {
		return false
	}
	if n.Class == 0 {
		switch n.Tag {
		case 12, 19, 22, 30, 20, 26:
			return true
		}
	}
	if n.Class == 2 {
		switch n.Tag {
		case 1, 2, 6:
			return true
		}
	}
	return false
}

// strEdits is the label-level alphabet Σ_str.
func strEdits(s []byte) (names []string, outs [][]byte) {
	add := func(n string, b []byte) { names = append(names, n); outs = append(outs, b) }
	if len(s) == 0 {
		return
	}
	if i := bytes.IndexByte(s, '.'); i >= 0 {
		add("dropFirstLabel", append([]byte(nil), s[i+1:]...))
		add("dupFirstLabel", append(append([]byte(nil), s[:i+1]...), s...))
		add("doubleDot", append(append(append([]byte(nil), s[:i+1]...), '.'), s[i+1:]...))
	}
	if i := bytes.LastIndexByte(s, '.'); i >= 0 {
		add("dropLastLabel", append([]byte(nil), s[:i]...))
	}
	add("prependWildcard", append([]byte("*."), s...))
	add("prependDot", append([]byte("."), s...))
	add("appendDot", append(append([]byte(nil), s...), '.'))
	for _, c := range []byte{'_', '-', ' ', 0, 0x80} {
		b := append([]byte(nil), s...)
		b[0] = c
		add(fmt.Sprintf("first=%02x", c), b)
	}
	if i := bytes.Index(s, []byte("://")); i >= 0 {
		// a URL: the same host with an explicit port
		j := i + 3
		for j < len(s) && s[j] != '/' && s[j] != '?' && s[j] != '#' {
			j++
		}
		add("urlPort", append(append(append([]byte(nil), s[:j]...), []byte(":8080")...), s[j:]...))
	}
	add("upper", bytes.ToUpper(s))
	add("half", append([]byte(nil), s[:len(s)/2]...))
	return
}

// Emit is called for every successor with a description of the edit and the
// encoded result. The slice must not be retained across calls unless copied.
type Emit func(desc string, enc []byte)

// Successors enumerates every single edit of every node below (and including)
// sub inside the tree root. sub == nil means the whole tree.
func Successors(root, sub *Node, emit Emit) {
	type ent struct {
		n, p *Node
		idx  int
	}
	var nodes []ent
	start := root
	if sub != nil {
		start = sub
	}
	// find parent of sub so that parent-level edits on sub itself are possible
	var subParent *Node
	subIdx := 0
	if sub != nil && sub != root {
		root.Walk(func(x, p *Node, i int) {
			if x == sub {
				subParent, subIdx = p, i
			}
		})
	}
	start.Walk(func(x, p *Node, i int) {
		if x == start {
			nodes = append(nodes, ent{x, subParent, subIdx})
		} else {
			nodes = append(nodes, ent{x, p, i})
		}
	})
	for k, e := range nodes {
		n, p := e.n, e.p
		tagd := fmt.Sprintf("n%d", k)
		out := func(op string) { emit(tagd+":"+op, root.Encode()) }
		// parent-level edits
		if p != nil {
			saved := p.Children
			i := e.idx
			// delete
			nk := make([]*Node, 0, len(saved)-1)
			nk = append(nk, saved[:i]...)
			nk = append(nk, saved[i+1:]...)
			p.Children = nk
			out("delete")
			// duplicate
			nk = make([]*Node, 0, len(saved)+1)
			nk = append(nk, saved[:i+1]...)
			nk = append(nk, saved[i:]...)
			p.Children = nk
			out("dup")
			// swap with next sibling
			if i+1 < len(saved) {
				nk = append([]*Node(nil), saved...)
				nk[i], nk[i+1] = nk[i+1], nk[i]
				p.Children = nk
				out("swapNext")
			}
			// compound edit "two elements of a list repeated": n and a later sibling are both duplicated in place.
			// One deviation — "the list repeats itself" — and the smallest input on which code that COLLECTS the
			// repeated elements (in a map, a set, a sorted slice) has two things to put in some order.
			if listElement(n, p) && len(saved) <= 16 {
				for j := i + 1; j < len(saved) && j <= i+8; j++ {
					nk = make([]*Node, 0, len(saved)+2)
					nk = append(nk, saved[:i+1]...)
					nk = append(nk, saved[i:j+1]...)
					nk = append(nk, saved[j:]...)
					p.Children = nk
					out(fmt.Sprintf("dup2:%d", j))
				}
			}
			p.Children = saved
			// compound edit "a second, different element": n is duplicated and ONE leaf of the copy is
			// edited; the copy goes after (A) or before (B) the original. Counted as one deviation: it is
			// the smallest change that gives a list two *unequal* elements, which plain dup cannot, and
			// lints that look at the first / last element only are the classic defect of a linter.
			if listElement(n, p) && n.Count() <= 10 {
				dupMod(n, func(pos byte, li int, op string, cp *Node) {
					nk = make([]*Node, 0, len(saved)+1)
					nk = append(nk, saved[:i]...)
					if pos == 'A' {
						nk = append(nk, saved[i], cp)
					} else {
						nk = append(nk, cp, saved[i])
					}
					nk = append(nk, saved[i+1:]...)
					p.Children = nk
					out(fmt.Sprintf("dm%c:l%d:%s", pos, li, op))
					p.Children = saved
				})
			}
			// compound edit "a longer list": the first element of a list is replaced by k pairwise different copies
			// of itself, in DESCENDING order of the changed leaf (so the list is neither sorted nor duplicate-free
			// by accident). One deviation — "the list has k more entries" — and the only way to reach code that
			// treats short and long lists differently (pairwise scan below a threshold, sort / map above it).
			if i == 0 && listElement(n, p) && n.Count() <= 10 {
				for _, k := range growSizes {
					copies := growCopies(n, k)
					if copies == nil {
						break
					}
					nk = make([]*Node, 0, len(saved)+k)
					nk = append(nk, copies...)
					nk = append(nk, saved...)
					p.Children = nk
					out(fmt.Sprintf("gr%d", k))
					p.Children = saved
				}
			}
		}
		saved := *n
		// empty
		if len(n.Children) > 0 || len(n.Content) > 0 {
			n.Children, n.Content = nil, nil
			if n.Wrapped {
				n.Wrapped, n.BitPad = false, false
			}
			out("empty")
			*n = saved
		}
		prim := !n.Constructed
		rawContent := n.body()
		if prim {
			if len(rawContent) > 0 {
				n.Wrapped, n.BitPad, n.Children = false, false, nil
				n.Content = rawContent[:len(rawContent)-1]
				out("dropLast")
				n.Content = rawContent[1:]
				out("dropFirst")
				*n = saved
			}
		}
		// retag
		for _, r := range retags {
			if r.class == n.Class && r.tag == n.Tag && r.constructed == n.Constructed {
				continue
			}
			n.Class, n.Tag = r.class, r.tag
			if r.constructed != n.Constructed {
				// keep the same content octets under the new form
				if r.constructed {
					kids, err := parseAll(rawContent, 1)
					if err != nil {
						*n = saved
						continue // content is not TLV: a constructed retag would not be DER nesting
					}
					n.Constructed, n.Wrapped, n.BitPad = true, false, false
					n.Children, n.Content = kids, nil
				} else {
					n.Constructed, n.Children = false, nil
					n.Content = rawContent
				}
			}
			out("retag:" + r.name)
			*n = saved
		}
		if prim {
			for _, c := range contents {
				n.Wrapped, n.BitPad, n.Children = false, false, nil
				if !bytes.Equal(c, rawContent) {
					n.Content = c
					out(fmt.Sprintf("set:%x", c))
				}
				if len(c) > 0 {
					n.Content = append(append([]byte(nil), rawContent...), c...)
					out(fmt.Sprintf("append:%x", c))
				}
				*n = saved
			}
		}
		// INTEGER / ENUMERATED leaves: the boundary values of the machine integers a lint converts them to
		if prim && n.Class == 0 && (n.Tag == 2 || n.Tag == 10) {
			for _, c := range intBoundaries {
				n.Wrapped, n.BitPad, n.Children = false, false, nil
				if !bytes.Equal(c, rawContent) {
					n.Content = c
					out(fmt.Sprintf("int:%x", c))
				}
				*n = saved
			}
			// two INTEGER siblings at once (amount and exponent, numerator and denominator, modulus and exponent …): one
			// deviation "this pair of numbers is extreme", over a small product
			if p != nil && len(p.Children) <= 8 {
				for j := e.idx + 1; j < len(p.Children); j++ {
					m := p.Children[j]
					if m.Constructed || m.Wrapped || m.Class != 0 || (m.Tag != 2 && m.Tag != 10) {
						continue
					}
					savedM := *m
					for _, va := range intPairA {
						for _, vb := range intPairB {
							n.Content, m.Content = va, vb
							out(fmt.Sprintf("int2:%d:%x:%x", j, va, vb))
						}
					}
					*n, *m = saved, savedM
				}
			}
		}
		if isStringLeaf(n) {
			names, outs := strEdits(n.Content)
			for i := range names {
				if bytes.Equal(outs[i], n.Content) {
					continue
				}
				n.Content = outs[i]
				out("str:" + names[i])
			}
			*n = saved
		}
	}
}

// listElement: n sits in something that looks like SEQUENCE OF / SET OF — every sibling has n's
// identifier, or all are context-tagged (GeneralNames), or the parent is a SET (an RDN).
func listElement(n, p *Node) bool {
	if !p.Constructed || p.Wrapped && len(p.Children) == 0 {
		return false
	}
	if p.Class == 0 && p.Tag == 17 {
		return true
	}
	same, ctx := true, true
	for _, c := range p.Children {
		if c.Class != n.Class || c.Tag != n.Tag || c.Constructed != n.Constructed {
			same = false
		}
		if c.Class != 2 {
			ctx = false
		}
	}
	return same || ctx
}

// dupMod enumerates clones of n in which exactly one primitive leaf carries one content-level edit.
func dupMod(n *Node, emit func(pos byte, leaf int, op string, cp *Node)) {
	cp := n.Clone()
	var leaves []*Node
	cp.Walk(func(x, _ *Node, _ int) {
		if !x.Constructed && !x.Wrapped {
			leaves = append(leaves, x)
		}
	})
	for li, l := range leaves {
		if l.Class == 0 && l.Tag == 6 {
			continue // the OID of an attribute / extension stays: the copy is a second element of the same type
		}
		orig := l.Content
		try := func(op string, c []byte) {
			if bytes.Equal(c, orig) {
				return
			}
			l.Content = c
			emit('A', li, op, cp)
			emit('B', li, op, cp)
			l.Content = orig
		}
		for _, c := range dupModSet {
			try(fmt.Sprintf("set:%x", c), c)
		}
		for _, c := range dupModAppend {
			try(fmt.Sprintf("append:%x", c), append(append([]byte(nil), orig...), c...))
		}
		if len(orig) > 0 {
			try("dropLast", orig[:len(orig)-1])
			try("dropFirst", orig[1:])
		}
		if isStringLeaf(l) {
			names, outs := strEdits(orig)
			for i := range names {
				try("str:"+names[i], outs[i])
			}
		}
	}
}

// ApplyPath re-applies a recorded edit description sequence; used by replay.
// It enumerates successors and picks the one whose description matches.
func ApplyPath(enc []byte, path []string) ([]byte, error) {
	cur := enc
	for _, step := range path {
		root, err := Parse(cur)
		if err != nil {
			return nil, err
		}
		var got []byte
		Successors(root, nil, func(desc string, e []byte) {
			if got == nil && desc == step {
				got = append([]byte(nil), e...)
			}
		})
		if got == nil {
			return nil, fmt.Errorf("edit %q not applicable", step)
		}
		cur = got
	}
	return cur, nil
}

var growSizes = []int{2, 4, 8}

// growCopies returns k clones of n whose last primitive non-OID leaf ends in 'z', 'y', 'x' … (descending).
func growCopies(n *Node, k int) []*Node {
	var out []*Node
	for j := 0; j < k; j++ {
		cp := n.Clone()
		var leaf *Node
		cp.Walk(func(x, _ *Node, _ int) {
			if !x.Constructed && !x.Wrapped && !(x.Class == 0 && x.Tag == 6) {
				leaf = x
			}
		})
		if leaf == nil {
			return nil
		}
		leaf.Content = append(append([]byte(nil), leaf.Content...), byte('z'-j))
		out = append(out, cp)
	}
	return out
}
