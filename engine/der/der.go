// Package der is a small DER tree: parse, canonical re-encode, and a fixed
// alphabet of structural edits used as the transition relation of the
// explicit-state explorer (DESIGN.md §2.2).
package der

import (
	"errors"
)

// Node is one TLV. A constructed node has Children; a primitive node has
// Content. A primitive OCTET STRING / BIT STRING whose content is itself DER
// is "wrapped": Children hold the inner TLVs and Content is ignored on encode.
type Node struct {
	Class       int // 0 universal, 1 application, 2 context, 3 private
	Tag         int
	Constructed bool
	Children    []*Node
	Content     []byte
	Wrapped     bool // OCTET/BIT STRING carrying DER
	BitPad      bool // wrapped BIT STRING (leading 0x00 unused-bits octet)
}

var errTrunc = errors.New("der: truncated")

// parseOne parses one TLV from b and returns the node and the rest.
func parseOne(b []byte, depth int) (*Node, []byte, error) {
	if len(b) < 2 {
		return nil, nil, errTrunc
	}
	if depth > 40 {
		return nil, nil, errors.New("der: too deep")
	}
	id := b[0]
	n := &Node{Class: int(id >> 6), Constructed: id&0x20 != 0, Tag: int(id & 0x1f)}
	off := 1
	if n.Tag == 0x1f {
		n.Tag = 0
		for {
			if off >= len(b) {
				return nil, nil, errTrunc
			}
			c := b[off]
			off++
			n.Tag = n.Tag<<7 | int(c&0x7f)
			if n.Tag > 1<<24 {
				return nil, nil, errors.New("der: tag too large")
			}
			if c&0x80 == 0 {
				break
			}
		}
		if n.Tag < 0x1f {
			return nil, nil, errors.New("der: non-minimal tag")
		}
	}
	if off >= len(b) {
		return nil, nil, errTrunc
	}
	l := int(b[off])
	off++
	if l&0x80 != 0 {
		nb := l & 0x7f
		if nb == 0 || nb > 4 || off+nb > len(b) {
			return nil, nil, errors.New("der: bad length")
		}
		l = 0
		for i := 0; i < nb; i++ {
			l = l<<8 | int(b[off+i])
		}
		off += nb
		// minimal-length rule, so that Encode(Parse(x)) == x
		if l < 0x80 || (nb > 1 && l < 1<<(8*(uint(nb)-1))) {
			return nil, nil, errors.New("der: non-minimal length")
		}
	}
	if l < 0 || off+l > len(b) {
		return nil, nil, errTrunc
	}
	body := b[off : off+l]
	rest := b[off+l:]
	if n.Constructed {
		kids, err := parseAll(body, depth+1)
		if err != nil {
			return nil, nil, err
		}
		n.Children = kids
		return n, rest, nil
	}
	n.Content = append([]byte(nil), body...)
	// descend into OCTET STRING / BIT STRING that carry DER
	if n.Class == 0 && n.Tag == 4 && len(body) >= 2 {
		if kids, err := parseAll(body, depth+1); err == nil && len(kids) > 0 && plausible(kids) {
			n.Wrapped, n.Children = true, kids
		}
	} else if n.Class == 0 && n.Tag == 3 && len(body) >= 3 && body[0] == 0 {
		if kids, err := parseAll(body[1:], depth+1); err == nil && len(kids) == 1 && plausible(kids) {
			n.Wrapped, n.BitPad, n.Children = true, true, kids
		}
	}
	return n, rest, nil
}

// plausible keeps accidental parses of random octets (key ids, hashes) out:
// the carried value must start with a constructed universal SEQUENCE/SET or be
// a single universal primitive of a common string/number type.
func plausible(kids []*Node) bool {
	k := kids[0]
	if k.Class == 0 && k.Constructed && (k.Tag == 16 || k.Tag == 17) {
		return true
	}
	if len(kids) == 1 && k.Class == 0 && !k.Constructed {
		switch k.Tag {
		case 1, 2, 3, 4, 5, 6, 10, 12, 19, 22, 23, 24, 30:
			return true
		}
	}
	return false
}

func parseAll(b []byte, depth int) ([]*Node, error) {
	var out []*Node
	for len(b) > 0 {
		n, rest, err := parseOne(b, depth)
		if err != nil {
			return nil, err
		}
		out = append(out, n)
		b = rest
	}
	return out, nil
}

// Parse parses exactly one TLV covering all of b and checks that it
// re-encodes to b byte for byte.
func Parse(b []byte) (*Node, error) {
	n, rest, err := parseOne(b, 0)
	if err != nil {
		return nil, err
	}
	if len(rest) != 0 {
		return nil, errors.New("der: trailing data")
	}
	enc := n.Encode()
	if string(enc) != string(b) {
		return nil, errors.New("der: does not round-trip")
	}
	return n, nil
}

func appendHeader(dst []byte, n *Node, l int) []byte {
	id := byte(n.Class<<6) & 0xc0
	if n.Constructed {
		id |= 0x20
	}
	if n.Tag < 0x1f {
		dst = append(dst, id|byte(n.Tag))
	} else {
		dst = append(dst, id|0x1f)
		var tmp [5]byte
		i := len(tmp)
		t := n.Tag
		for {
			i--
			tmp[i] = byte(t & 0x7f)
			if i != len(tmp)-1 {
				tmp[i] |= 0x80
			}
			t >>= 7
			if t == 0 {
				break
			}
		}
		dst = append(dst, tmp[i:]...)
	}
	switch {
	case l < 0x80:
		dst = append(dst, byte(l))
	case l < 0x100:
		dst = append(dst, 0x81, byte(l))
	case l < 0x10000:
		dst = append(dst, 0x82, byte(l>>8), byte(l))
	case l < 0x1000000:
		dst = append(dst, 0x83, byte(l>>16), byte(l>>8), byte(l))
	default:
		dst = append(dst, 0x84, byte(l>>24), byte(l>>16), byte(l>>8), byte(l))
	}
	return dst
}

func (n *Node) body() []byte {
	if n.Constructed || n.Wrapped {
		var b []byte
		if n.BitPad {
			b = append(b, 0)
		}
		for _, c := range n.Children {
			b = c.appendTo(b)
		}
		return b
	}
	return n.Content
}

func (n *Node) appendTo(dst []byte) []byte {
	b := n.body()
	dst = appendHeader(dst, n, len(b))
	return append(dst, b...)
}

// Encode returns the DER encoding with all lengths recomputed.
func (n *Node) Encode() []byte { return n.appendTo(nil) }

// Clone deep-copies the tree.
func (n *Node) Clone() *Node {
	c := *n
	if n.Content != nil {
		c.Content = append([]byte(nil), n.Content...)
	}
	if n.Children != nil {
		c.Children = make([]*Node, len(n.Children))
		for i, k := range n.Children {
			c.Children[i] = k.Clone()
		}
	}
	return &c
}

// Walk visits nodes in pre-order with their parent and index in parent.
func (n *Node) Walk(f func(node, parent *Node, idx int)) {
	var rec func(x, p *Node, i int)
	rec = func(x, p *Node, i int) {
		f(x, p, i)
		for j, c := range x.Children {
			rec(c, x, j)
		}
	}
	rec(n, nil, 0)
}

// Count returns the number of nodes.
func (n *Node) Count() int {
	c := 0
	n.Walk(func(_, _ *Node, _ int) { c++ })
	return c
}

// Builders -----------------------------------------------------------------

func Prim(class, tag int, content []byte) *Node {
	return &Node{Class: class, Tag: tag, Content: content}
}
func Cons(class, tag int, kids ...*Node) *Node {
	return &Node{Class: class, Tag: tag, Constructed: true, Children: kids}
}
func Seq(kids ...*Node) *Node { return Cons(0, 16, kids...) }
func Set(kids ...*Node) *Node { return Cons(0, 17, kids...) }
func OctetWrap(kids ...*Node) *Node {
	return &Node{Tag: 4, Wrapped: true, Children: kids}
}
func BitWrap(kid *Node) *Node {
	return &Node{Tag: 3, Wrapped: true, BitPad: true, Children: []*Node{kid}}
}
func Octets(b []byte) *Node { return Prim(0, 4, b) }
func Bits(b []byte, unused byte) *Node {
	return Prim(0, 3, append([]byte{unused}, b...))
}
func Null() *Node         { return Prim(0, 5, nil) }
func Bool(v bool) *Node {
	if v {
		return Prim(0, 1, []byte{0xff})
	}
	return Prim(0, 1, []byte{0})
}
func Str(tag int, s string) *Node { return Prim(0, tag, []byte(s)) }

// Int encodes a non-negative big-endian magnitude as INTEGER.
func IntBytes(mag []byte) *Node {
	for len(mag) > 1 && mag[0] == 0 {
		mag = mag[1:]
	}
	if len(mag) == 0 {
		mag = []byte{0}
	}
	if mag[0]&0x80 != 0 {
		mag = append([]byte{0}, mag...)
	}
	return Prim(0, 2, mag)
}
func Int(v int64) *Node {
	if v < 0 {
		panic("der.Int: negative")
	}
	var b []byte
	for x := v; x > 0; x >>= 8 {
		b = append([]byte{byte(x)}, b...)
	}
	return IntBytes(b)
}

// OID encodes dotted arcs.
func OID(arcs ...int) *Node {
	b := []byte{byte(arcs[0]*40 + arcs[1])}
	for _, a := range arcs[2:] {
		var tmp []byte
		tmp = append(tmp, byte(a&0x7f))
		a >>= 7
		for a > 0 {
			tmp = append([]byte{byte(a&0x7f) | 0x80}, tmp...)
			a >>= 7
		}
		b = append(b, tmp...)
	}
	return Prim(0, 6, b)
}

// Find returns the first node (pre-order) satisfying pred.
func (n *Node) Find(pred func(*Node) bool) *Node {
	var out *Node
	n.Walk(func(x, _ *Node, _ int) {
		if out == nil && pred(x) {
			out = x
		}
	})
	return out
}

// IsOID reports whether n is the OID with the given encoded content.
func (n *Node) IsOID(content []byte) bool {
	return n.Class == 0 && n.Tag == 6 && !n.Constructed && string(n.Content) == string(content)
}
