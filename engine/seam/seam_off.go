//go:build !verifseam

package seam

const Enabled = false

func SetMapOrder(ctl uintptr, seed uint32) {}
func SetNow(sec int64)                     {}
func NowCalls() int64                      { return 0 }
func EnvCalls() int64                      { return 0 }
func IOCalls() int64                       { return 0 }

const IOSeam = false
