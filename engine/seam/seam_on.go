//go:build verifseam

// Package seam gives the harness control over the environment answers the
// patched standard library exposes (built with the std overlay only).
package seam

import (
	"runtime"
	"syscall"
	"time"
)

const Enabled = true

func SetMapOrder(ctl uintptr, seed uint32) { runtime.VerifSetMapOrder(ctl, seed) }
func SetNow(sec int64)                     { time.VerifSetNow(sec) }
func NowCalls() int64                      { return time.VerifNowCalls() }
func EnvCalls() int64                      { return syscall.VerifEnvCalls() }

// IOCalls: file / network / process system calls issued through package syscall (0 and IOSeam=false if the seam could not be installed).
func IOCalls() int64 { return syscall.VerifIOCalls() }

const IOSeam = syscall.VerifIOSeam
