// Package sched is Engine S: a cooperative scheduler that runs the threads of
// a scenario one at a time and a depth-first explorer over its scheduling
// decisions with a preemption bound (stateless model checking of the real
// code). Hooked operations (the sync shim, inserted yields) call Point.
package sched

import (
	"fmt"
	"runtime/debug"
	"strings"
)

type op struct {
	kind    string
	res     interface{}
	enabled func() bool
	apply   func()
}

type thread struct {
	id      int
	resume  chan struct{}
	done    bool
	pending *op
	panicV  interface{}
	stack   string
}

// PointInfo is what the explorer needs to know about one decision.
type PointInfo struct {
	Enabled             []int // thread ids in canonical order: the running thread first if still enabled, then ascending
	RunningStillEnabled bool
	RunningKind         string // the operation the running thread is parked at (where a preemption would hit)
	Kind                string // op kind of the thread that was chosen
}

// Execution is the outcome of one run under a choice prefix.
type Execution struct {
	Choices  []int
	Points   []PointInfo
	Deadlock bool
	DeadDesc string
	Panics   map[int]string
	Diverged string // non-empty: the prefix could not be replayed (hard error)
	Trace    []string
}

// Run is one controlled execution; it implements verifsync.Scheduler.
type Run struct {
	threads []*thread
	cur     *thread
	parked  chan struct{}
	prefix  []int
	exec    *Execution
	trace   bool
	maxPts  int
}

// Point is called by the running thread at every hooked operation.
func (r *Run) Point(kind string, res interface{}, enabled func() bool, apply func()) {
	t := r.cur
	if t == nil {
		// not inside a controlled thread (e.g. package init): behave as a no-op point
		if apply != nil {
			apply()
		}
		return
	}
	t.pending = &op{kind, res, enabled, apply}
	r.parked <- struct{}{}
	<-t.resume
}

// Execute runs bodies as threads under the choice prefix; choices beyond the
// prefix default to 0 (keep running the current thread if possible).
func Execute(install func(*Run), uninstall func(), bodies []func(), prefix []int, trace bool) *Execution {
	r := &Run{parked: make(chan struct{}), prefix: prefix, trace: trace, maxPts: 2000000}
	r.exec = &Execution{Panics: map[int]string{}}
	for i, b := range bodies {
		t := &thread{id: i, resume: make(chan struct{})}
		t.pending = &op{kind: "start"}
		r.threads = append(r.threads, t)
		b := b
		go func() {
			<-t.resume
			defer func() {
				if v := recover(); v != nil {
					t.panicV = v
					t.stack = string(debug.Stack())
				}
				t.done = true
				t.pending = nil
				r.parked <- struct{}{}
			}()
			b()
		}()
	}
	install(r)
	defer uninstall()
	var last *thread
	step := 0
	for {
		var enabled []*thread
		alive := 0
		for _, t := range r.threads {
			if t.done {
				continue
			}
			alive++
			if t.pending.enabled == nil || t.pending.enabled() {
				enabled = append(enabled, t)
			}
		}
		if alive == 0 {
			break
		}
		if len(enabled) == 0 {
			r.exec.Deadlock = true
			var d []string
			for _, t := range r.threads {
				if !t.done {
					d = append(d, fmt.Sprintf("thread %d blocked at %s", t.id, t.pending.kind))
				}
			}
			r.exec.DeadDesc = strings.Join(d, "; ")
			// leave the blocked goroutines parked forever (they hold no real locks)
			break
		}
		// canonical order
		order := make([]*thread, 0, len(enabled))
		still := false
		if last != nil && !last.done {
			for _, t := range enabled {
				if t == last {
					still = true
				}
			}
		}
		if still {
			order = append(order, last)
		}
		for _, t := range enabled {
			if !(still && t == last) {
				order = append(order, t)
			}
		}
		choice := 0
		if step < len(r.prefix) {
			choice = r.prefix[step]
			if choice >= len(order) {
				r.exec.Diverged = fmt.Sprintf("prefix choice %d at step %d but only %d threads enabled", choice, step, len(order))
				break
			}
		}
		ids := make([]int, len(order))
		for i, t := range order {
			ids[i] = t.id
		}
		t := order[choice]
		r.exec.Choices = append(r.exec.Choices, choice)
		rk := ""
		if still {
			rk = last.pending.kind
		}
		r.exec.Points = append(r.exec.Points, PointInfo{Enabled: ids, RunningStillEnabled: still, RunningKind: rk, Kind: t.pending.kind})
		if r.trace {
			r.exec.Trace = append(r.exec.Trace, fmt.Sprintf("T%d:%s", t.id, t.pending.kind))
		}
		step++
		if step > r.maxPts {
			r.exec.Diverged = "execution exceeds the point horizon"
			break
		}
		if t.pending.apply != nil {
			t.pending.apply()
		}
		last = t
		r.cur = t
		t.resume <- struct{}{}
		<-r.parked
		r.cur = nil
		if t.done && t.panicV != nil {
			r.exec.Panics[t.id] = fmt.Sprintf("%v\n%s", t.panicV, t.stack)
		}
	}
	return r.exec
}

func (e *Execution) preemptionsBefore(i int, coarse func(string) bool) (total, nCoarse int) {
	for j := 0; j < i && j < len(e.Choices); j++ {
		if e.Choices[j] != 0 && e.Points[j].RunningStillEnabled {
			total++
			if coarse != nil && coarse(e.Points[j].RunningKind) {
				nCoarse++
			}
		}
	}
	return
}

// Stats of an exploration.
type Stats struct {
	Executions  int64
	Points      int64
	MaxPoints   int
	Deadlocks   int64
	BoundPruned int64
	Capped      bool
}

// Explorer is the DFS over choice prefixes with a preemption bound.
type Explorer struct {
	// Bound limits the preemptions of an execution; of these at most CoarseBound may hit a point
	// that IsCoarse classifies as coarse (CoarseBound < 0: no separate limit).
	CoarseBound int
	IsCoarse    func(kind string) bool
	Bound    int
	MaxExec  int64
	Run      func(prefix []int) *Execution
	Check    func(*Execution) bool // false = stop exploring (violation recorded by the caller)
	Shard    int
	NShards  int
	Stats    Stats
	subtree  int
	Deadline func() bool
}

// Explore enumerates every execution with at most Bound preemptions. Work is
// dealt to shards at level 2: every shard runs the (few) level-1 executions to
// enumerate their alternatives, each level-1 execution is checked and counted
// by one owner, and the level-2 subtrees are dealt round-robin.
func (e *Explorer) Explore() {
	base := e.Run(nil)
	if e.Shard == 0 || e.NShards <= 1 {
		e.account(base)
		if !e.Check(base) {
			return
		}
	}
	e.children(base, 0, 0)
}

func (e *Explorer) account(x *Execution) {
	e.Stats.Executions++
	e.Stats.Points += int64(len(x.Points))
	if len(x.Points) > e.Stats.MaxPoints {
		e.Stats.MaxPoints = len(x.Points)
	}
	if x.Deadlock {
		e.Stats.Deadlocks++
	}
}

func (e *Explorer) children(x *Execution, from int, depth int) bool {
	for i := from; i < len(x.Points); i++ {
		p := x.Points[i]
		cost, ccost := x.preemptionsBefore(i, e.IsCoarse)
		for alt := 1; alt < len(p.Enabled); alt++ {
			c, cc := cost, ccost
			if p.RunningStillEnabled {
				c++
				if e.IsCoarse != nil && e.IsCoarse(p.RunningKind) {
					cc++
				}
			}
			if c > e.Bound || (e.CoarseBound >= 0 && cc > e.CoarseBound) {
				if depth != 1 || e.NShards <= 1 || e.subtree%e.NShards == e.Shard {
					e.Stats.BoundPruned++
				}
				continue
			}
			owner := true
			if e.NShards > 1 && depth <= 1 {
				e.subtree++
				owner = e.subtree%e.NShards == e.Shard
				if depth == 1 && !owner {
					continue // a level-2 subtree of another shard
				}
			}
			if e.MaxExec > 0 && e.Stats.Executions >= e.MaxExec || (e.Deadline != nil && e.Deadline()) {
				e.Stats.Capped = true
				return false
			}
			prefix := append(append([]int{}, x.Choices[:i]...), alt)
			y := e.Run(prefix)
			if owner {
				e.account(y)
				if !e.Check(y) {
					return false
				}
			}
			if y.Diverged != "" {
				continue
			}
			if !e.children(y, len(prefix), depth+1) {
				return false
			}
		}
	}
	return true
}
