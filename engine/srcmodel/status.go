package srcmodel

import (
	"go/ast"
	"go/parser"
	"go/token"
	"os"
	"path/filepath"
	"sort"
	"strconv"
	"strings"
)

// StatusModel: for every registered lint the set of lint.<Status> constants
// that can flow out of its Execute — an over-approximation obtained by treating
// every branch as non-deterministic and following calls inside zlint packages.
type StatusModel struct {
	Reach      map[string]map[string]bool // lint name → status constant names
	Unresolved []string                   // registrations whose Execute could not be located
	Funcs      int
}

var statusNames = map[string]bool{"Reserved": true, "NA": true, "NE": true, "Pass": true, "Notice": true, "Warn": true, "Error": true, "Fatal": true}

type pkgInfo struct {
	dir   string
	path  string // import path suffix after /v3/
	files []*ast.File
	funcs map[string][]*ast.FuncDecl // by name (functions and methods)
	byRecv map[string][]*ast.FuncDecl // "Type.Method"
	fileOf map[*ast.FuncDecl]*ast.File
	fname  map[*ast.File]string
}

func recvType(fd *ast.FuncDecl) string {
	if fd.Recv == nil || len(fd.Recv.List) == 0 {
		return ""
	}
	t := fd.Recv.List[0].Type
	if s, ok := t.(*ast.StarExpr); ok {
		t = s.X
	}
	if id, ok := t.(*ast.Ident); ok {
		return id.Name
	}
	return ""
}

func loadPkg(root, rel string) *pkgInfo {
	dir := filepath.Join(root, rel)
	p := &pkgInfo{dir: dir, path: rel, funcs: map[string][]*ast.FuncDecl{}, byRecv: map[string][]*ast.FuncDecl{}, fileOf: map[*ast.FuncDecl]*ast.File{}, fname: map[*ast.File]string{}}
	files, _ := filepath.Glob(filepath.Join(dir, "*.go"))
	fset := token.NewFileSet()
	for _, f := range files {
		if strings.HasSuffix(f, "_test.go") {
			continue
		}
		af, err := parser.ParseFile(fset, f, nil, 0)
		if err != nil {
			continue
		}
		p.files = append(p.files, af)
		p.fname[af] = filepath.Base(f)
		for _, d := range af.Decls {
			if fd, ok := d.(*ast.FuncDecl); ok && fd.Body != nil {
				p.funcs[fd.Name.Name] = append(p.funcs[fd.Name.Name], fd)
				if r := recvType(fd); r != "" {
					p.byRecv[r+"."+fd.Name.Name] = append(p.byRecv[r+"."+fd.Name.Name], fd)
				}
				p.fileOf[fd] = af
			}
		}
	}
	return p
}

// importsOf maps local package names of a file to zlint-relative package paths.
func importsOf(af *ast.File) map[string]string {
	m := map[string]string{}
	for _, im := range af.Imports {
		p, _ := strconv.Unquote(im.Path.Value)
		i := strings.Index(p, "github.com/zmap/zlint/v3/")
		if i < 0 {
			continue
		}
		rel := p[i+len("github.com/zmap/zlint/v3/"):]
		name := filepath.Base(rel)
		if im.Name != nil {
			name = im.Name.Name
		}
		m[name] = rel
	}
	return m
}

type analyzer struct {
	root string
	pkgs map[string]*pkgInfo
	memo map[*ast.FuncDecl]map[string]bool
	busy map[*ast.FuncDecl]bool
}

func (a *analyzer) pkg(rel string) *pkgInfo {
	if p, ok := a.pkgs[rel]; ok {
		return p
	}
	if _, err := os.Stat(filepath.Join(a.root, rel)); err != nil {
		a.pkgs[rel] = nil
		return nil
	}
	p := loadPkg(a.root, rel)
	a.pkgs[rel] = p
	return p
}

// statusesIn collects status constants in fd's body (not in comparisons / case
// labels) and in everything it may call inside zlint.
func (a *analyzer) statusesIn(p *pkgInfo, fd *ast.FuncDecl) map[string]bool {
	if m, ok := a.memo[fd]; ok {
		return m
	}
	out := map[string]bool{}
	if a.busy[fd] {
		return out
	}
	a.busy[fd] = true
	defer func() { a.busy[fd] = false; a.memo[fd] = out }()
	imps := importsOf(p.fileOf[fd])
	lintAlias := ""
	for n, rel := range imps {
		if rel == "lint" {
			lintAlias = n
		}
	}
	inLintPkg := p.path == "lint"
	recv := recvType(fd)
	var walk func(n ast.Node, excluded bool)
	walk = func(n ast.Node, excluded bool) {
		if n == nil {
			return
		}
		switch x := n.(type) {
		case *ast.BinaryExpr:
			if x.Op == token.EQL || x.Op == token.NEQ || x.Op == token.LSS || x.Op == token.GTR || x.Op == token.LEQ || x.Op == token.GEQ {
				walk(x.X, true)
				walk(x.Y, true)
				return
			}
		case *ast.CaseClause:
			for _, e := range x.List {
				walk(e, true)
			}
			for _, s := range x.Body {
				walk(s, excluded)
			}
			return
		case *ast.SelectorExpr:
			if id, ok := x.X.(*ast.Ident); ok && id.Name == lintAlias && lintAlias != "" && statusNames[x.Sel.Name] {
				if !excluded {
					out[x.Sel.Name] = true
				}
				return
			}
		case *ast.Ident:
			if inLintPkg && statusNames[x.Name] && !excluded {
				out[x.Name] = true
			}
		case *ast.CallExpr:
			switch f := x.Fun.(type) {
			case *ast.Ident:
				for _, c := range p.funcs[f.Name] {
					if recvType(c) == "" {
						for s := range a.statusesIn(p, c) {
							out[s] = true
						}
					}
				}
			case *ast.SelectorExpr:
				if id, ok := f.X.(*ast.Ident); ok {
					if rel, isPkg := imps[id.Name]; isPkg {
						if q := a.pkg(rel); q != nil {
							for _, c := range q.funcs[f.Sel.Name] {
								if recvType(c) == "" {
									for s := range a.statusesIn(q, c) {
										out[s] = true
									}
								}
							}
						}
						break
					}
				}
				// method call: methods of the same receiver type first, else any method of that name in the package
				cands := p.byRecv[recv+"."+f.Sel.Name]
				if len(cands) == 0 {
					for _, c := range p.funcs[f.Sel.Name] {
						if recvType(c) != "" {
							cands = append(cands, c)
						}
					}
				}
				for _, c := range cands {
					if c.Name.Name == "Execute" && c != fd && recvType(c) != recv {
						continue // another lint's body is not called from here
					}
					for s := range a.statusesIn(p, c) {
						out[s] = true
					}
				}
			}
		}
		// generic traversal
		ast.Inspect(n, func(c ast.Node) bool {
			if c == n {
				return true
			}
			if c != nil {
				walk(c, excluded)
			}
			return false
		})
	}
	walk(fd.Body, false)
	return out
}

// ctorType finds the concrete type a constructor returns.
func ctorType(p *pkgInfo, ctor string) string {
	for _, fd := range p.funcs[ctor] {
		if recvType(fd) != "" {
			continue
		}
		var typ string
		ast.Inspect(fd.Body, func(n ast.Node) bool {
			if typ != "" {
				return false
			}
			switch x := n.(type) {
			case *ast.CompositeLit:
				if id, ok := x.Type.(*ast.Ident); ok {
					typ = id.Name
				}
			case *ast.CallExpr:
				if id, ok := x.Fun.(*ast.Ident); ok && id.Name == "new" && len(x.Args) == 1 {
					if t, ok := x.Args[0].(*ast.Ident); ok {
						typ = t.Name
					}
				}
			}
			return true
		})
		if typ != "" {
			return typ
		}
	}
	return ""
}

// BuildStatusModel analyses every registration of the census.
func BuildStatusModel(repo string, cen *Census) *StatusModel {
	root := filepath.Join(repo, "v3")
	a := &analyzer{root: root, pkgs: map[string]*pkgInfo{}, memo: map[*ast.FuncDecl]map[string]bool{}, busy: map[*ast.FuncDecl]bool{}}
	m := &StatusModel{Reach: map[string]map[string]bool{}}
	for _, r := range cen.Regs {
		if !r.Resolved {
			continue
		}
		p := a.pkg("lints/" + r.Dir)
		if p == nil {
			m.Unresolved = append(m.Unresolved, r.Name)
			continue
		}
		var execs []*ast.FuncDecl
		if r.Ctor != "" {
			if t := ctorType(p, r.Ctor); t != "" {
				execs = p.byRecv[t+".Execute"]
			}
		}
		if len(execs) == 0 {
			// fall back: Execute methods declared in the registration's file
			for _, fd := range p.funcs["Execute"] {
				if f := p.fileOf[fd]; f != nil && recvType(fd) != "" && p.fname[f] == filepath.Base(r.File) {
					execs = append(execs, fd)
				}
			}
		}
		if len(execs) == 0 {
			m.Unresolved = append(m.Unresolved, r.Name)
			continue
		}
		set := map[string]bool{}
		for _, e := range execs {
			for s := range a.statusesIn(p, e) {
				set[s] = true
			}
		}
		m.Reach[r.Name] = set
	}
	m.Funcs = len(a.memo)
	sort.Strings(m.Unresolved)
	return m
}

