// Package srcmodel extracts small abstract models from the sources of the tree
// under test with go/ast. Each model is validated against dynamic behaviour by
// the check that uses it.
package srcmodel

import (
	"go/build"
	"go/ast"
	"go/parser"
	"go/token"
	"os"
	"path/filepath"
	"sort"
	"strconv"
	"strings"
)

// Registration is one syntactic call of lint.Register*Lint.
type Registration struct {
	File     string // path relative to v3/
	Dir      string // lint package directory name
	Func     string // RegisterLint | RegisterCertificateLint | RegisterRevocationListLint | RegisterOcspResponseLint
	Name     string // literal Name, "" if not a literal
	Resolved bool
	InInit   bool
	Ctor     string // constructor identifier if an identifier
}

func (r Registration) Kind() string {
	switch r.Func {
	case "RegisterRevocationListLint":
		return "crl"
	case "RegisterOcspResponseLint":
		return "ocsp"
	}
	return "cert"
}

type Census struct {
	Regs        []Registration
	LintDirs    []string          // directories under v3/lints that hold non-test go files
	LintFiles   []string          // non-test lint_*.go files (relative to v3/)
	FilesNoReg  []string          // lint_*.go files without any registration
	BlankImport map[string]bool   // lints/<dir> blank-imported by v3/zlint.go
	ParseErrors []string
	NotBuilt    []NotBuiltReg // registrations made from init() of a file that a default build does not compile
}

type dirEnt string

func (d dirEnt) Name() string { return string(d) }

type NotBuiltReg struct {
	Registration
	Why string
}

func findName(e ast.Expr) (string, bool) {
	// walks a composite literal looking for a Name: "…" key
	var name string
	var ok bool
	ast.Inspect(e, func(n ast.Node) bool {
		kv, is := n.(*ast.KeyValueExpr)
		if !is {
			return true
		}
		if id, is := kv.Key.(*ast.Ident); is && id.Name == "Name" && !ok {
			if bl, is := kv.Value.(*ast.BasicLit); is && bl.Kind == token.STRING {
				if s, err := strconv.Unquote(bl.Value); err == nil {
					name, ok = s, true
				}
			}
		}
		return true
	})
	return name, ok
}

func findCtor(e ast.Expr) string {
	var c string
	ast.Inspect(e, func(n ast.Node) bool {
		kv, is := n.(*ast.KeyValueExpr)
		if !is {
			return true
		}
		if id, is := kv.Key.(*ast.Ident); is && id.Name == "Lint" {
			if v, is := kv.Value.(*ast.Ident); is {
				c = v.Name
			}
		}
		return true
	})
	return c
}

// TakeCensus walks v3/lints of the repository and v3/zlint.go.
func TakeCensus(repo string) (*Census, error) {
	c := &Census{BlankImport: map[string]bool{}}
	root := filepath.Join(repo, "v3")
	lintsDir := filepath.Join(root, "lints")
	ents, err := os.ReadDir(lintsDir)
	if err != nil {
		return nil, err
	}
	fset := token.NewFileSet()
	// every directory below v3/lints, at any depth (a lint package nested inside another one is a lint package too)
	var dirs []dirEnt
	_ = ents
	_ = filepath.WalkDir(lintsDir, func(path string, d os.DirEntry, err error) error {
		if err != nil || !d.IsDir() || path == lintsDir {
			return nil
		}
		if d.Name() == "testdata" || strings.HasPrefix(d.Name(), ".") || strings.HasPrefix(d.Name(), "_") {
			return filepath.SkipDir
		}
		rel, _ := filepath.Rel(lintsDir, path)
		dirs = append(dirs, dirEnt(filepath.ToSlash(rel)))
		return nil
	})
	for _, e := range dirs {
		files, _ := filepath.Glob(filepath.Join(lintsDir, filepath.FromSlash(e.Name()), "*.go"))
		has := false
		for _, f := range files {
			notBuilt := ""
			if strings.HasSuffix(f, "_test.go") {
				notBuilt = "its name ends in _test.go, so it is compiled into the package's test binary only"
			} else if ok, err := build.Default.MatchFile(filepath.Dir(f), filepath.Base(f)); err == nil && !ok {
				notBuilt = "its build constraints (or GOOS/GOARCH file-name suffix) exclude it from a default build"
			}
			if notBuilt != "" {
				// a file a default build does not compile: a lint registered from its init() is in the sources but in no registry
				if af, err := parser.ParseFile(fset, f, nil, 0); err == nil {
					rel, _ := filepath.Rel(root, f)
					for _, d := range af.Decls {
						fd, ok := d.(*ast.FuncDecl)
						if !ok || fd.Recv != nil || fd.Name.Name != "init" {
							continue
						}
						ast.Inspect(fd, func(x ast.Node) bool {
							call, ok := x.(*ast.CallExpr)
							if !ok {
								return true
							}
							sel, ok := call.Fun.(*ast.SelectorExpr)
							if !ok {
								return true
							}
							if pk, ok := sel.X.(*ast.Ident); !ok || pk.Name != "lint" {
								return true
							}
							switch sel.Sel.Name {
							case "RegisterLint", "RegisterCertificateLint", "RegisterRevocationListLint", "RegisterOcspResponseLint":
								r := Registration{File: rel, Dir: e.Name(), Func: sel.Sel.Name, InInit: true}
								if len(call.Args) == 1 {
									r.Name, r.Resolved = findName(call.Args[0])
								}
								c.NotBuilt = append(c.NotBuilt, NotBuiltReg{r, notBuilt})
							}
							return true
						})
					}
				}
				continue
			}
			has = true
			rel, _ := filepath.Rel(root, f)
			af, err := parser.ParseFile(fset, f, nil, 0)
			if err != nil {
				c.ParseErrors = append(c.ParseErrors, rel+": "+err.Error())
				continue
			}
			n := 0
			for _, d := range af.Decls {
				fd, ok := d.(*ast.FuncDecl)
				inInit := ok && fd.Recv == nil && fd.Name.Name == "init"
				ast.Inspect(d, func(x ast.Node) bool {
					call, ok := x.(*ast.CallExpr)
					if !ok {
						return true
					}
					sel, ok := call.Fun.(*ast.SelectorExpr)
					if !ok {
						return true
					}
					pk, ok := sel.X.(*ast.Ident)
					if !ok || pk.Name != "lint" {
						return true
					}
					switch sel.Sel.Name {
					case "RegisterLint", "RegisterCertificateLint", "RegisterRevocationListLint", "RegisterOcspResponseLint":
					default:
						return true
					}
					r := Registration{File: rel, Dir: e.Name(), Func: sel.Sel.Name, InInit: inInit}
					if len(call.Args) == 1 {
						r.Name, r.Resolved = findName(call.Args[0])
						r.Ctor = findCtor(call.Args[0])
					}
					c.Regs = append(c.Regs, r)
					n++
					return true
				})
			}
			base := filepath.Base(f)
			if strings.HasPrefix(base, "lint_") {
				c.LintFiles = append(c.LintFiles, rel)
				if n == 0 {
					c.FilesNoReg = append(c.FilesNoReg, rel)
				}
			}
		}
		if has {
			c.LintDirs = append(c.LintDirs, e.Name())
		}
	}
	zf, err := parser.ParseFile(fset, filepath.Join(root, "zlint.go"), nil, parser.ImportsOnly)
	if err != nil {
		return nil, err
	}
	for _, im := range zf.Imports {
		p, _ := strconv.Unquote(im.Path.Value)
		if im.Name != nil && im.Name.Name == "_" {
			if i := strings.Index(p, "/v3/lints/"); i >= 0 {
				c.BlankImport[p[i+len("/v3/lints/"):]] = true
			}
		}
	}
	sort.Strings(c.LintDirs)
	sort.Slice(c.Regs, func(i, j int) bool { return c.Regs[i].Name < c.Regs[j].Name })
	return c, nil
}
