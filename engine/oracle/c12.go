package oracle

import (
	"encoding/json"
	"fmt"
	"regexp"
	"sort"
	"strings"

	"github.com/zmap/zcrypto/x509"
	"github.com/zmap/zlint/v3/lint"
	"golang.org/x/crypto/ocsp"

	"verif/core"
	"verif/seeds"
	"verif/srcmodel"
)

func init() {
	core.Checks["C12"] = checkC12
}

// the property: non-empty, e_/w_/n_-prefixed, lower-case (hyphens occur in two Mozilla lint names)
var lintNameRE = regexp.MustCompile(`^[ewn]_[^\sA-Z]+$`)

func knownSource(s lint.LintSource) bool {
	b, _ := json.Marshal(string(s))
	var x lint.LintSource
	if !(x.UnmarshalJSON(b) == nil && x == s && s != lint.UnknownLintSource) {
		return false
	}
	// … and known to the source-list parser, which is how a source is named to the library and the CLI
	var sl lint.SourceList
	return sl.FromString(string(s)) == nil && len(sl) == 1 && sl[0] == s
}

func checkC12(ctx *core.Ctx, rep *core.Report) {
	if ctx.Shard == 0 {
		c12Census(ctx, rep)
	}
	regHistories(ctx, rep, "C12", map[string]bool{"tables": true}, regHistDepth(ctx))
	c12Sequences(ctx, rep)
}

func c12Census(ctx *core.Ctx, rep *core.Report) {
	cen, err := srcmodel.TakeCensus(seeds.RepoDir())
	if err != nil {
		rep.InternalError("census: %v", err)
		return
	}
	for _, e := range cen.ParseErrors {
		rep.InternalError("census parse: %s", e)
	}
	g := lint.GlobalRegistry()
	desc := snapshotRegistry(g)
	rep.Add("g_census_registrations", int64(len(cen.Regs)))
	rep.Add("g_registered_lints", int64(len(desc)))
	art := func(k string) map[string]interface{} { return map[string]interface{}{"op": "census", "item": k} }
	// census multiset vs registry multiset
	cm := map[string]int{}
	unresolved := 0
	for _, r := range cen.Regs {
		rep.Inc("states")
		rep.Inc("transitions")
		if !r.Resolved {
			unresolved++
			continue
		}
		cm[r.Kind()+"|"+r.Name]++
		if !r.InInit {
			rep.Note("registration of %s in %s is outside init()", r.Name, r.File)
		}
	}
	rm := map[string]int{}
	for _, d := range desc {
		rm[d.Kind+"|"+d.Name]++
	}
	if unresolved == 0 {
		for k, n := range cm {
			rep.Inc("validated")
			if rm[k] != n {
				rep.Violate("C12|census_vs_registry|"+k, fmt.Sprintf("%d registration(s) of %s in the sources but %d in the registry of a default build", n, k, rm[k]), art(k))
			}
		}
		for k, n := range rm {
			if cm[k] == 0 {
				rep.Violate("C12|registry_not_in_census|"+k, fmt.Sprintf("%s is registered %d× but no registration call with that literal name exists under v3/lints", k, n), art(k))
			}
		}
	} else {
		rep.Note("%d registration(s) with a non-literal Name: names compared by count only", unresolved)
	}
	if len(cen.Regs) != len(desc) {
		rep.Violate("C12|count", fmt.Sprintf("%d registration calls in the sources, %d lints registered", len(cen.Regs), len(desc)), art("count"))
	}
	rep.Inc("validated")
	// every lint directory blank-imported
	for _, d := range cen.LintDirs {
		rep.Inc("validated")
		if !cen.BlankImport[d] {
			rep.Violate("C12|dir_not_imported|"+d, "lint package lints/"+d+" is not blank-imported by v3/zlint.go: its lints are not linked into a default build", art(d))
		}
	}
	// a lint whose registration sits in a file that a default build does not compile is defined in the tree but linked nowhere
	for _, nb := range cen.NotBuilt {
		rep.Inc("validated")
		rep.Violate("C12|census|registration_not_in_default_build|"+nb.Name, fmt.Sprintf("%s registers %q from its init(), but %s: the lint is in the sources and in no registry of a default build", nb.File, nb.Name, nb.Why),
			map[string]interface{}{"op": "census", "file": nb.File, "lint": nb.Name})
	}
	// every lint_*.go registers something
	for _, f := range cen.FilesNoReg {
		rep.Violate("C12|file_without_registration|"+f, "lint file "+f+" contains no registration call", art(f))
	}
	rep.Add("g_lint_files", int64(len(cen.LintFiles)))
	rep.Add("g_lint_dirs", int64(len(cen.LintDirs)))
	// registry-internal agreement and well-formedness
	for _, b := range compareRegistry(g, desc) {
		rep.Violate("C12|lookup_disagree", b, art("lookup"))
	}
	names := g.Names()
	if !sort.StringsAreSorted(names) {
		rep.Violate("C12|names_unsorted", "Names() is not sorted", art("names"))
	}
	seen := map[string]string{}
	for _, d := range desc {
		rep.Inc("states")
		rep.Inc("validated")
		if k, dup := seen[d.Name]; dup {
			rep.Violate("C12|name_not_unique|"+d.Name, fmt.Sprintf("name %s registered as %s and as %s", d.Name, k, d.Kind), art(d.Name))
		}
		seen[d.Name] = d.Kind
		bad := func(k, w string) { rep.Violate("C12|malformed|"+k+"|"+d.Name, d.Name+": "+w, art(d.Name)) }
		if !lintNameRE.MatchString(d.Name) {
			bad("name", "name is not a non-empty e_/w_/n_-prefixed lower-case identifier")
		}
		if strings.TrimSpace(d.Meta.Description) == "" {
			bad("description", "empty description")
		}
		if d.Meta.Source == "" || !knownSource(d.Meta.Source) {
			bad("source", fmt.Sprintf("source %q is not a known lint source", d.Meta.Source))
		}
		if !d.Meta.EffectiveDate.IsZero() && !d.Meta.IneffectiveDate.IsZero() && !d.Meta.EffectiveDate.Before(d.Meta.IneffectiveDate) {
			bad("dates", "effective date does not precede the ineffective date")
		}
		var inst interface{}
		func() {
			defer func() {
				if r := recover(); r != nil {
					inst = nil
				}
			}()
			switch l := d.Ptr.(type) {
			case *lint.CertificateLint:
				if l.Lint != nil {
					if v := l.Lint(); v != nil {
						inst = v
					}
				}
			case *lint.RevocationListLint:
				if l.Lint != nil {
					if v := l.Lint(); v != nil {
						inst = v
					}
				}
			case *lint.OcspResponseLint:
				if l.Lint != nil {
					if v := l.Lint(); v != nil {
						inst = v
					}
				}
			}
		}()
		if inst == nil {
			bad("implementation", "constructor is nil or returns nil")
		}
	}
	if len(names) != len(desc) {
		rep.Violate("C12|names_count", fmt.Sprintf("Names() has %d entries for %d lints", len(names), len(desc)), art("names"))
	}
	rep.Sample(2, map[string]interface{}{"registrations": len(cen.Regs), "dirs": cen.LintDirs})
}

// ---- Engine O: register / lookup sequences over mock lints ---------------------

type seqCert struct{}

func (seqCert) CheckApplies(*x509.Certificate) bool { return true }
func (seqCert) Execute(*x509.Certificate) *lint.LintResult {
	return &lint.LintResult{Status: lint.Pass}
}

type seqCRL struct{}

func (seqCRL) CheckApplies(*x509.RevocationList) bool { return true }
func (seqCRL) Execute(*x509.RevocationList) *lint.LintResult {
	return &lint.LintResult{Status: lint.Pass}
}

type seqOCSP struct{}

func (seqOCSP) CheckApplies(*ocsp.Response) bool        { return true }
func (seqOCSP) Execute(*ocsp.Response) *lint.LintResult { return &lint.LintResult{Status: lint.Pass} }

type regOp struct {
	kind string // cert | crl | ocsp | oldcert (deprecated RegisterLint)
	what string // new | dup | otherkind | empty | nillint | nilctor
}

// c12Sequences: all sequences of depth ≤ 3 of registration attempts through the
// public Register* calls on this process's global registry, against a
// map-based reference that is carried along (the registry only grows).
func c12Sequences(ctx *core.Ctx, rep *core.Report) {
	g := lint.GlobalRegistry()
	model := snapshotRegistry(g)
	var ops []regOp
	for _, k := range []string{"cert", "crl", "ocsp", "oldcert"} {
		for _, w := range []string{"new", "dup", "otherkind", "empty", "nillint", "nilctor"} {
			ops = append(ops, regOp{k, w})
		}
	}
	counter := 0
	src := []lint.LintSource{lint.Community, lint.RFC5280, lint.EtsiEsi}
	apply := func(seqID string, op regOp, lastName map[string]string) {
		counter++
		kind := op.kind
		if kind == "oldcert" {
			kind = "cert"
		}
		name := fmt.Sprintf("n_zz_seq_%d_%d", ctx.Shard, counter)
		switch op.what {
		case "dup":
			if lastName[kind] == "" {
				return
			}
			name = lastName[kind]
		case "otherkind":
			other := map[string]string{"cert": "crl", "crl": "ocsp", "ocsp": "cert"}[kind]
			if lastName[other] == "" {
				return
			}
			name = lastName[other]
		case "empty":
			name = ""
		}
		meta := lint.LintMetadata{Name: name, Description: "mock", Source: src[counter%len(src)]}
		expectRefuse := op.what == "empty" || op.what == "nillint" || op.what == "nilctor"
		for _, d := range model {
			if d.Kind == kind && d.Name == name {
				expectRefuse = true // a name is registered at most once per kind
			}
		}
		var ptr interface{}
		var pan interface{}
		func() {
			defer func() { pan = recover() }()
			switch op.kind {
			case "cert":
				var l *lint.CertificateLint
				if op.what != "nillint" {
					l = &lint.CertificateLint{LintMetadata: meta, Lint: func() lint.CertificateLintInterface { return seqCert{} }}
					if op.what == "nilctor" {
						l.Lint = func() lint.CertificateLintInterface { return nil }
					}
				}
				ptr = l
				lint.RegisterCertificateLint(l)
			case "oldcert":
				var l *lint.Lint
				if op.what != "nillint" {
					l = &lint.Lint{Name: meta.Name, Description: meta.Description, Source: meta.Source, Lint: func() lint.LintInterface { return seqCert{} }}
					if op.what == "nilctor" {
						l.Lint = func() lint.LintInterface { return nil }
					}
				}
				ptr = nil
				lint.RegisterLint(l)
			case "crl":
				var l *lint.RevocationListLint
				if op.what != "nillint" {
					l = &lint.RevocationListLint{LintMetadata: meta, Lint: func() lint.RevocationListLintInterface { return seqCRL{} }}
					if op.what == "nilctor" {
						l.Lint = func() lint.RevocationListLintInterface { return nil }
					}
				}
				ptr = l
				lint.RegisterRevocationListLint(l)
			case "ocsp":
				var l *lint.OcspResponseLint
				if op.what != "nillint" {
					l = &lint.OcspResponseLint{LintMetadata: meta, Lint: func() lint.OcspResponseLintInterface { return seqOCSP{} }}
					if op.what == "nilctor" {
						l.Lint = func() lint.OcspResponseLintInterface { return nil }
					}
				}
				ptr = l
				lint.RegisterOcspResponseLint(l)
			}
		}()
		rep.Inc("transitions")
		art := map[string]interface{}{"op": "register_sequence", "sequence": seqID, "step": op.kind + ":" + op.what}
		if expectRefuse && pan == nil {
			rep.Violate("C12|register|not_refused|"+op.what, fmt.Sprintf("Register (%s, %s) was accepted but must be refused", op.kind, op.what), art)
			// keep the model in step with what happened so that later comparisons stay meaningful
			if op.what != "nillint" {
				model = append(model, lintDesc{name, meta.Source, kind, ptr, meta})
			}
		}
		if !expectRefuse && pan != nil {
			rep.Violate("C12|register|refused|"+op.what, fmt.Sprintf("Register (%s, %s) was refused: %v", op.kind, op.what, pan), art)
			return
		}
		if !expectRefuse {
			model = append(model, lintDesc{name, meta.Source, kind, ptr, meta})
			lastName[kind] = name
		}
	}
	var seqs [][]int
	for a := range ops {
		seqs = append(seqs, []int{a})
		for b := range ops {
			seqs = append(seqs, []int{a, b})
			if ctx.Quick() && (a%2 == 1) {
				continue
			}
			for c := range ops {
				seqs = append(seqs, []int{a, b, c})
			}
		}
	}
	for i, s := range seqs {
		if !ctx.Mine(uint64(i)) {
			continue
		}
		last := map[string]string{}
		// every sequence starts with one accepted registration per kind so that dup/otherkind have a target
		id := fmt.Sprint(s)
		for _, k := range []string{"cert", "crl", "ocsp"} {
			apply(id, regOp{k, "new"}, last)
		}
		for _, oi := range s {
			apply(id, ops[oi], last)
		}
		rep.Inc("states")
		rep.Inc("sequences")
		// the model may now hold one name in two kinds ("otherkind"); compareRegistry copes per kind
		if i%7 == 0 || len(s) < 3 {
			rep.Inc("validated")
			for _, b := range compareRegistryMulti(g, model) {
				rep.Violate("C12|register|tables_out_of_step", b+" after sequence "+id, map[string]interface{}{"op": "register_sequence", "sequence": id})
			}
		}
	}
	rep.Inc("validated")
	for _, b := range compareRegistryMulti(g, model) {
		rep.Violate("C12|register|tables_out_of_step", b+" at the end of all sequences", map[string]interface{}{"op": "register_sequence", "sequence": "final"})
	}
}

// compareRegistryMulti is compareRegistry for registries in which one name may
// live in more than one kind table (nobody refuses that at registration time):
// it compares per kind listing, ByName, BySource, and the merged Names/Sources.
func compareRegistryMulti(r lint.Registry, want []lintDesc) []string {
	var bad []string
	var wn []string
	srcs := map[lint.LintSource]bool{}
	byKind := map[string]map[string]lintDesc{"cert": {}, "crl": {}, "ocsp": {}}
	for _, d := range want {
		wn = append(wn, d.Name)
		srcs[d.Source] = true
		byKind[d.Kind][d.Name] = d
	}
	sort.Strings(wn)
	got := r.Names()
	if len(got) != len(wn) {
		bad = append(bad, fmt.Sprintf("Names() has %d entries, model %d", len(got), len(wn)))
	} else {
		for i := range got {
			if got[i] != wn[i] {
				bad = append(bad, fmt.Sprintf("Names()[%d]=%s, model %s", i, got[i], wn[i]))
				break
			}
		}
	}
	gs := map[lint.LintSource]bool{}
	for _, s := range r.Sources() {
		gs[s] = true
	}
	if len(gs) != len(srcs) {
		bad = append(bad, fmt.Sprintf("Sources() %v, model %v", keysOf(gs), keysOf(srcs)))
	}
	snap := snapshotRegistry(r)
	cnt := map[string]int{}
	for _, d := range snap {
		cnt[d.Kind+"|"+d.Name]++
		if w, ok := byKind[d.Kind][d.Name]; !ok || w.Meta != d.Meta {
			bad = append(bad, fmt.Sprintf("%s listing holds %s which the model does not", d.Kind, d.Name))
		}
	}
	for k, m := range byKind {
		for n, d := range m {
			if cnt[k+"|"+n] != 1 {
				bad = append(bad, fmt.Sprintf("%s lint %s listed %d times", k, n, cnt[k+"|"+n]))
			}
			var meta *lint.LintMetadata
			var bs int
			switch k {
			case "cert":
				if l := r.CertificateLints().ByName(n); l != nil {
					meta = &l.LintMetadata
				}
				for _, l := range r.CertificateLints().BySource(d.Source) {
					if l.Name == n {
						bs++
					}
				}
			case "crl":
				if l := r.RevocationListLints().ByName(n); l != nil {
					meta = &l.LintMetadata
				}
				for _, l := range r.RevocationListLints().BySource(d.Source) {
					if l.Name == n {
						bs++
					}
				}
			case "ocsp":
				if l := r.OcspResponseLints().ByName(n); l != nil {
					meta = &l.LintMetadata
				}
				for _, l := range r.OcspResponseLints().BySource(d.Source) {
					if l.Name == n {
						bs++
					}
				}
			}
			if meta == nil || *meta != d.Meta {
				bad = append(bad, fmt.Sprintf("%s ByName(%s) disagrees with the model", k, n))
			}
			// the registry's own (deprecated, certificate-only) lookups are lookups too
			if k == "cert" {
				if dl := r.ByName(n); dl == nil || dl.Name != n || dl.Source != d.Source {
					bad = append(bad, fmt.Sprintf("Registry.ByName(%s) does not find the registered certificate lint", n))
				}
				found := 0
				for _, l := range r.BySource(d.Source) {
					if l != nil && l.Name == n {
						found++
					}
				}
				if found != 1 {
					bad = append(bad, fmt.Sprintf("Registry.BySource(%s) lists certificate lint %s %d times", d.Source, n, found))
				}
			} else if _, isCert := byKind["cert"][n]; !isCert {
				if dl := r.ByName(n); dl != nil {
					bad = append(bad, fmt.Sprintf("Registry.ByName(%s) returns a certificate lint for a name that only a %s lint carries", n, k))
				}
			}
			if bs != 1 {
				bad = append(bad, fmt.Sprintf("%s BySource(%s) lists %s %d times", k, d.Source, n, bs))
			}
		}
	}
	if len(bad) > 5 {
		bad = append(bad[:5], fmt.Sprintf("… %d more", len(bad)-5))
	}
	return bad
}
