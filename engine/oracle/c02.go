package oracle

import (
	"fmt"
	"strings"

	"github.com/zmap/zlint/v3/lint"

	"verif/core"
	"verif/der"
	"verif/seeds"
	"verif/xstate"
	"verif/zl"
)

func init() {
	core.Checks["C02"] = checkC02
	core.Replayers["C02"] = replayC02
}

// directPanics drives every lint of the object's kind directly — fresh
// instance, configure, CheckApplies, Execute — without the framework's
// recovery net, so that a panic is attributed to the lint that raised it.
func directPanics(o *zl.Obj, reg lint.Registry) map[string]string {
	out := map[string]string{}
	try := func(name string, f func()) {
		defer func() {
			if r := recover(); r != nil {
				out[name] = fmt.Sprint(r)
			}
		}()
		f()
	}
	cfg := reg.GetConfiguration()
	switch o.Kind {
	case seeds.Cert:
		for _, l := range reg.CertificateLints().Lints() {
			l := l
			try(l.Name, func() {
				in := l.Lint()
				if cfg.MaybeConfigure(in, l.Name) == nil && in.CheckApplies(o.Cert) {
					in.Execute(o.Cert)
				}
			})
		}
	case seeds.CRL:
		for _, l := range reg.RevocationListLints().Lints() {
			l := l
			try(l.Name, func() {
				in := l.Lint()
				if cfg.MaybeConfigure(in, l.Name) == nil && in.CheckApplies(o.CRL) {
					in.Execute(o.CRL)
				}
			})
		}
	default:
		for _, l := range reg.OcspResponseLints().Lints() {
			l := l
			try(l.Name, func() {
				in := l.Lint()
				if cfg.MaybeConfigure(in, l.Name) == nil && in.CheckApplies(o.OCSP) {
					in.Execute(o.OCSP)
				}
			})
		}
	}
	return out
}

// c02Oracle returns (key, what) pairs for one object under the global registry.
func c02Oracle(o *zl.Obj) [][2]string {
	var bad [][2]string
	g := lint.GlobalRegistry()
	rs, p := zl.Lint(o, g)
	if p != nil {
		// CRL/OCSP path has no recovery net: attribute by driving lints directly
		who := directPanics(o, g)
		if len(who) == 0 {
			bad = append(bad, [2]string{"C02|" + o.Kind.String() + "|escaping_panic", fmt.Sprintf("panic escaped Lint*Ex: %v", p)})
		}
		for n, msg := range who {
			bad = append(bad, [2]string{"C02|" + n + "|escaping_panic", fmt.Sprintf("lint %s panicked and the panic escaped Lint*Ex: %s", n, msg)})
		}
		return bad
	}
	for n, r := range rs.Results {
		if r == nil {
			continue
		}
		if zl.IsPanicDetails(n, r.Details) || (r.Status == lint.Fatal && strings.Contains(r.Details, zl.PanicMarker)) {
			bad = append(bad, [2]string{"C02|" + n + "|recovered_panic", fmt.Sprintf("lint %s failed internally: %s", n, r.Details)})
		}
	}
	return bad
}

// c02Focus picks the depth-2 focus subtrees: values of extensions (the
// structures lints re-parse themselves), small enough for a full pair product.
func c02Focus(maxNodes int, seenExt map[string]int, perOID int) func(s *seeds.Seed, root *der.Node) []*der.Node {
	return func(s *seeds.Seed, root *der.Node) []*der.Node {
		var out []*der.Node
		root.Walk(func(n, p *der.Node, idx int) {
			// Extension ::= SEQUENCE { OID, [BOOLEAN], OCTET STRING(wrapped) }
			if n.Class != 0 || n.Tag != 16 || len(n.Children) < 2 {
				return
			}
			oid := n.Children[0]
			val := n.Children[len(n.Children)-1]
			if oid.Class != 0 || oid.Tag != 6 || val.Class != 0 || val.Tag != 4 || !val.Wrapped {
				return
			}
			c := val.Count()
			if c > maxNodes {
				return
			}
			key := fmt.Sprintf("%x", oid.Content)
			if seenExt[key] >= perOID {
				return
			}
			seenExt[key]++
			out = append(out, val)
		})
		return out
	}
}

func checkC02(ctx *core.Ctx, rep *core.Report) {
	all := seeds.Load()
	nth := 4
	if !ctx.Quick() {
		nth = 1
	}
	nth = argInt(ctx, "nth", nth)
	sel := pickSeeds(all, nth)
	rep.Add("seeds_total", int64(len(all)))
	rep.Add("seeds_used", int64(len(sel)))
	opt := xstate.Options{Seeds: sel, Depth: 1}
	if f := argInt(ctx, "focus", 0); f > 0 {
		opt.Focus = c02Focus(f, map[string]int{}, argInt(ctx, "peroid", 1))
	}
	xstate.Explore(ctx, rep, opt, func(st *xstate.State) {
		rep.Inc("validated")
		for _, b := range c02Oracle(st.Obj) {
			rep.Violate(b[0], b[1]+" [seed "+st.Seed.Name+" path "+strings.Join(st.Path, ",")+"]", st.Replay())
		}
		if len(st.Path) == 2 {
			rep.Inc("depth2_states")
		}
		rep.Sample(3, map[string]interface{}{"seed": st.Seed.Name, "path": st.Path, "bytes": len(st.DER)})
	})
	// revocation lists over the entry-list product (common.go): CRL linting has no recovery net at all
	maxLen := 2
	if !ctx.Quick() {
		maxLen = 3
	}
	n := crlEntryStates(ctx, all, maxLen, func(st *xstate.State) {
		rep.Inc("states")
		rep.Inc("transitions")
		rep.Inc("validated")
		for _, b := range c02Oracle(st.Obj) {
			rep.Violate(b[0], b[1]+" [CRL template "+st.Seed.Name+" "+strings.Join(st.Path, ",")+"]", st.Replay())
		}
	})
	rep.Add("crl_entry_list_states", int64(n))
}

func replayC02(rp map[string]interface{}) (string, error) {
	st, err := stateFromReplay(rp)
	if err != nil {
		return "", err
	}
	if bad := c02Oracle(st.Obj); len(bad) > 0 {
		return bad[0][0] + ": " + bad[0][1], nil
	}
	return "", nil
}
