//go:build verifsched

package oracle

import (
	"fmt"
	"strconv"
	"strings"

	"github.com/zmap/zlint/v3/lint"
	"github.com/zmap/zlint/v3/lint/verifsync"

	"verif/core"
	"verif/sched"
	"verif/seeds"
)

// C10cold — cold-start exploration. The in-process explorer replays thousands of schedules in ONE process,
// so whatever is initialised lazily on first use (a table built by the first caller, a sync.Once, a
// double-checked lock) is warm after the first execution: the schedules in which a second thread arrives
// while the first one is half way through that initialisation exist only in a fresh process. Here every
// execution is its own process: the driver runs the base schedule of a scenario, reads its scheduling
// points back, and then runs every schedule with exactly one preemption (at every point, to every other
// enabled thread), one process each. The sequential reference is computed AFTER the controlled run.
//
//	verifrun run C10cold -args mode=plan                       → the scenario objects (greedy diverse set)
//	verifrun run C10cold -args mode=exec,objs=a;b,pre=<i>:<alt>  → one execution (pre empty: base schedule)
func init() {
	core.Checks["C10cold"] = checkC10cold
}

func checkC10cold(ctx *core.Ctx, rep *core.Report) {
	g := lint.GlobalRegistry()
	if ctx.Args["mode"] == "plan" {
		all := seeds.Load()
		var certs []*seeds.Seed
		for i := range all {
			if all[i].Kind == seeds.Cert {
				certs = append(certs, &all[i])
			}
		}
		div := c10Diverse(g, certs, 24)
		var names []string
		for _, d := range div {
			names = append(names, d.Name)
		}
		rep.Note("plan:" + strings.Join(names, ";"))
		return
	}
	want := strings.Split(ctx.Args["objs"], ";")
	all := seeds.LoadNamed(want...) // reading and parsing files does not touch zlint
	var objs []*seeds.Seed
	for _, n := range want {
		for i := range all {
			if all[i].Name == n {
				objs = append(objs, &all[i])
			}
		}
	}
	if len(objs) < 2 {
		rep.InternalError("cold-start objects not found: %v", want)
		return
	}
	ops := []c10Op{opLint("x", objs[0], g), opLint("y", objs[1], g)}
	names := g.Names()
	fopt := lint.FilterOptions{IncludeSources: lint.SourceList{lint.CABFBaselineRequirements, lint.RFC5280}}
	switch ctx.Args["kind"] {
	case "lj": // a lint run against the very first listing (Names, Sources, lookups, WriteJSON, DefaultConfiguration) of the process
		ops = []c10Op{opLint("x", objs[0], g), opListing(g, names[len(names)/2])}
	case "lf": // … against the very first Filter
		ops = []c10Op{opLint("x", objs[0], g), opFilter("sources", g, fopt)}
	case "jj":
		ops = []c10Op{opListing(g, names[len(names)/2]), opListing(g, names[0])}
	case "fj":
		ops = []c10Op{opFilter("sources", g, fopt), opListing(g, names[len(names)/2])}
	}
	got := make([]string, len(ops))
	bodies := make([]func(), len(ops))
	for i := range ops {
		i := i
		bodies[i] = func() { got[i] = ops[i].run() }
	}
	var prefix []int
	if pre := ctx.Args["pre"]; pre != "" {
		parts := strings.SplitN(pre, ":", 2)
		at, _ := strconv.Atoi(parts[0])
		alt, _ := strconv.Atoi(parts[1])
		prefix = make([]int, at+1)
		prefix[at] = alt
	}
	x := sched.Execute(func(r *sched.Run) { verifsync.S = r }, func() { verifsync.S = nil }, bodies, prefix, false)
	rep.Inc("states")
	rep.Inc("validated")
	rep.Add("transitions", int64(len(x.Points)))
	name := fmt.Sprintf("cold start: %s ∥ %s (x = %s, y = %s)", ops[0].desc, ops[1].desc, objs[0].Name, objs[1].Name)
	art := map[string]interface{}{"op": "cold_schedule", "objects": want, "preemption": ctx.Args["pre"], "kind": ctx.Args["kind"]}
	if x.Diverged != "" {
		// a one-preemption prefix derived from the base run of ANOTHER process must replay: same binary, same input
		rep.InternalError("%s: %s", name, x.Diverged)
		return
	}
	if len(prefix) == 0 {
		// the base schedule: hand the scheduling points back to the driver
		var sb strings.Builder
		for _, p := range x.Points {
			c := 'n'
			if p.RunningStillEnabled {
				c = 's'
			}
			fmt.Fprintf(&sb, "%d%c,", len(p.Enabled), c)
		}
		rep.Note("points:" + sb.String())
	}
	if x.Deadlock {
		rep.Violate("C10|cold_start|deadlock", "deadlock in a fresh process: "+x.DeadDesc+" ["+name+", preemption "+ctx.Args["pre"]+"]", art)
		return
	}
	for t, p := range x.Panics {
		rep.Violate("C10|cold_start|panic", fmt.Sprintf("thread %d panicked in a fresh process: %.300s [%s, preemption %s]", t, p, name, ctx.Args["pre"]), art)
	}
	for i := range ops {
		ref := ops[i].run() // alone, afterwards
		if got[i] != ref {
			d := "results differ"
			if dl := diffVectors(ref, got[i]); len(dl) > 0 {
				d = fmt.Sprintf("%s: alone %q, concurrently %q", dl[0][0], dl[0][1], dl[0][2])
			}
			rep.Violate("C10|cold_start|result_differs", fmt.Sprintf("in a fresh process, %s returns something else than the same call made alone (%s) [%s, one preemption at point %s]", ops[i].desc, d, name, ctx.Args["pre"]), art)
		}
	}
}
