package oracle

import (
	"encoding/hex"
	"fmt"
	"go/ast"
	"go/parser"
	"go/token"
	"math/big"
	"net"
	"path/filepath"
	"sort"
	"strconv"
	"strings"

	"github.com/zmap/zlint/v3/lint"
	"github.com/zmap/zlint/v3/util"

	"verif/certgen"
	"verif/core"
	"verif/der"
	"verif/seeds"
	"verif/zl"
)

func init() {
	core.Checks["C19"] = checkC19
}

// Blocks named by the property (pinned): every address inside is reserved.
var c19Pinned = []string{
	"10.0.0.0/8", "172.16.0.0/12", "192.168.0.0/16", // RFC 1918
	"127.0.0.0/8",                                       // loopback
	"169.254.0.0/16",                                    // link-local
	"100.64.0.0/10",                                     // shared address space
	"192.0.2.0/24", "198.51.100.0/24", "203.0.113.0/24", // documentation
	"198.18.0.0/15", // benchmarking
	"224.0.0.0/4",   // multicast
	"240.0.0.0/4",   // class E incl. broadcast
	"0.0.0.0/8",     // unspecified / this network
	"::1/128", "fc00::/7", "fe80::/10", "ff00::/8", "2001:db8::/32", "2002::/16", "100::/64", "::/128",
}

// Well-known public addresses: never reserved.
var c19Public = []string{"8.8.8.8", "8.8.4.4", "1.1.1.1", "9.9.9.9", "208.67.222.222", "4.2.2.2", "93.184.216.34",
	"2001:4860:4860::8888", "2606:4700:4700::1111", "2620:fe::fe", "2a00:1450:4001:81b::200e"}

// literalCIDRs: every string literal of util/ip.go that parses as a CIDR.
func literalCIDRs() []string {
	f := filepath.Join(seeds.RepoDir(), "v3", "util", "ip.go")
	fset := token.NewFileSet()
	af, err := parser.ParseFile(fset, f, nil, 0)
	if err != nil {
		return nil
	}
	var out []string
	ast.Inspect(af, func(n ast.Node) bool {
		if bl, ok := n.(*ast.BasicLit); ok && bl.Kind == token.STRING {
			if s, err := strconv.Unquote(bl.Value); err == nil {
				if _, _, err := net.ParseCIDR(s); err == nil {
					out = append(out, s)
				}
			}
		}
		return true
	})
	return out
}

func ip4(u uint32) net.IP { return net.IP{byte(u >> 24), byte(u >> 16), byte(u >> 8), byte(u)} }

func mapped(ip net.IP) net.IP {
	return net.IP{0, 0, 0, 0, 0, 0, 0, 0, 0, 0, 0xff, 0xff, ip[0], ip[1], ip[2], ip[3]}
}

func net4(base uint32, prefix int) net.IPNet {
	return net.IPNet{IP: ip4(base), Mask: net.CIDRMask(prefix, 32)}
}

func ipToBig(ip net.IP) *big.Int { return new(big.Int).SetBytes(ip) }
func bigToIP16(b *big.Int) net.IP {
	out := make(net.IP, 16)
	bb := b.Bytes()
	if len(bb) > 16 {
		bb = bb[len(bb)-16:]
	}
	copy(out[16-len(bb):], bb)
	return out
}

func checkC19(ctx *core.Ctx, rep *core.Report) {
	lits := literalCIDRs()
	rep.Add("g_literal_cidrs", int64(len(lits)))
	if len(lits) == 0 {
		rep.Hole("no CIDR literal found in v3/util/ip.go (table moved?) — boundaries come from the pinned list only")
	}
	blocks := append(append([]string{}, c19Pinned...), lits...)
	full := !ctx.Quick()

	// ---- pinned classification: at the start of the process, and again at its end — after millions of address and
	// network queries of both families (a table that an earlier query rearranges answers correctly only in a fresh process)
	c19PinnedPass(rep, "in a fresh process")
	defer c19PinnedPass(rep, "after the address and network sweeps of this process")
	// the address test is a function of the address: what it answers for the base address of every IPv4 network of prefix
	// ≤ 8 and every /16 boundary of the special blocks BEFORE any network has been judged must be what it answers at the end
	var probe []net.IP
	for p := 1; p <= 8; p++ {
		for b := 0; b < 1<<p; b++ {
			probe = append(probe, ip4(uint32(b)<<(32-p)))
		}
	}
	for _, b := range blocks {
		if _, n, err := net.ParseCIDR(b); err == nil {
			first := append(net.IP{}, n.IP...)
			probe = append(probe, first)
			for i := len(first) - 1; i >= 0 && i >= len(first)-2; i-- { // the enclosing /16- and /24-ish bases
				c := append(net.IP{}, first...)
				for j := i; j < len(c); j++ {
					c[j] = 0
				}
				probe = append(probe, c)
			}
		}
	}
	firstAnswer := make([]bool, len(probe))
	for i, a := range probe {
		firstAnswer[i] = util.IsIANAReserved(a)
	}
	defer func() {
		for i, a := range probe {
			rep.Inc("validated")
			if got := util.IsIANAReserved(a); got != firstAnswer[i] {
				rep.Violate("C19|address_test_history_dependent", fmt.Sprintf("IsIANAReserved(%s) answered %v in the fresh process and %v after the network sweeps of the same process", a, firstAnswer[i], got),
					map[string]interface{}{"op": "IsIANAReserved_history", "ip": a.String()})
			}
			bits := 8 * len(a)
			if got := util.IntersectsIANAReserved(net.IPNet{IP: a, Mask: net.CIDRMask(bits, bits)}); got != firstAnswer[i] {
				rep.Violate("C19|single_address_network_differs", fmt.Sprintf("the single-address network of %s intersects=%v at the end of the process, the address test said %v in the fresh process", a, got, firstAnswer[i]),
					map[string]interface{}{"op": "Intersects_history", "ip": a.String()})
			}
		}
	}()

	// ---- IPv4: exact bitmap per /8 ---------------------------------------------
	// literal boundaries with prefix > 24 mark their /24 as "scan all 256"
	fine := map[uint32]bool{}
	for _, b := range blocks {
		ip, n, _ := net.ParseCIDR(b)
		if ip.To4() == nil {
			continue
		}
		ones, _ := n.Mask.Size()
		if ones > 24 {
			v4 := n.IP.To4()
			fine[uint32(v4[0])<<16|uint32(v4[1])<<8|uint32(v4[2])] = true
		}
	}
	for top := 0; top < 256; top++ {
		if !ctx.Mine(uint64(top)) {
			continue
		}
		if ctx.Expired() {
			rep.Cap("deadline reached at /8 block %d", top)
			break
		}
		c19Slash8(ctx, rep, uint32(top), fine, full)
	}
	if ctx.Shard == 0 {
		c19Witness(ctx, rep, blocks)
		c19Lints(ctx, rep, blocks)
	}
}

func c19PinnedPass(rep *core.Report, when string) {
	for _, b := range c19Pinned {
		_, n, _ := net.ParseCIDR(b)
		first := n.IP
		last := make(net.IP, len(first))
		for i := range first {
			last[i] = first[i] | ^n.Mask[i]
		}
		mid := make(net.IP, len(first))
		copy(mid, first)
		mid[len(mid)-1] |= ^n.Mask[len(mid)-1] & 0x55
		for _, a := range []net.IP{first, last, mid} {
			rep.Inc("validated")
			if !util.IsIANAReserved(a) {
				rep.Violate("C19|pinned_not_reserved|"+b, fmt.Sprintf("%s (in special-purpose block %s) is not classified reserved %s", a, b, when), map[string]interface{}{"op": "IsIANAReserved", "ip": a.String(), "when": when})
			}
			if a4 := a.To4(); a4 != nil && len(a) == 4 {
				if util.IsIANAReserved(a) != util.IsIANAReserved(mapped(a4)) {
					rep.Violate("C19|mapped_differs", fmt.Sprintf("%s classified differently in 4-byte and IPv4-mapped form %s", a, when), map[string]interface{}{"op": "mapped", "ip": a.String(), "when": when})
				}
			}
			bits := 8 * len(a)
			if !util.IntersectsIANAReserved(net.IPNet{IP: a, Mask: net.CIDRMask(bits, bits)}) {
				rep.Violate("C19|pinned_net_not_intersecting|"+b, fmt.Sprintf("the single-address network of %s (in special-purpose block %s) does not intersect reserved space %s", a, b, when), map[string]interface{}{"op": "Intersects", "ip": a.String(), "when": when})
			}
		}
		rep.Inc("validated")
		if !util.IntersectsIANAReserved(*n) {
			rep.Violate("C19|pinned_net_not_intersecting|"+b, fmt.Sprintf("special-purpose block %s does not intersect reserved space %s", b, when), map[string]interface{}{"op": "Intersects", "net": b, "when": when})
		}
	}
	for _, s := range c19Public {
		a := net.ParseIP(s)
		rep.Inc("validated")
		if util.IsIANAReserved(a) {
			rep.Violate("C19|public_reserved|"+s, s+" (well-known public address) is classified reserved "+when, map[string]interface{}{"op": "IsIANAReserved", "ip": s, "when": when})
		}
		if a4 := a.To4(); a4 != nil && util.IsIANAReserved(net.IP(a4)) {
			rep.Violate("C19|public_reserved|"+s, s+" (4-byte form) is classified reserved "+when, map[string]interface{}{"op": "IsIANAReserved", "ip": s, "when": when})
		}
	}
	rep.Inc("pinned_passes")
}

// c19Slash8 classifies every /24 of one /8 (4 samples, all 256 addresses where
// a finer boundary is known or samples disagree; all 2^24 addresses in the
// thorough tier), then checks every network of prefix 8..24 inside it, and all
// sub-networks of mixed /24 blocks.
func c19Slash8(ctx *core.Ctx, rep *core.Report, top uint32, fine map[uint32]bool, full bool) {
	const n24 = 1 << 16
	anyR := make([]bool, n24)
	allR := make([]bool, n24)
	for i := uint32(0); i < n24; i++ {
		blk := top<<16 | i
		base := blk << 8
		scanAll := full || fine[blk]
		a, l := false, true
		if !scanAll {
			var s [4]bool
			for k, off := range []uint32{0, 1, 128, 255} {
				s[k] = util.IsIANAReserved(ip4(base + off))
				rep.Inc("addr_calls")
			}
			if s[0] != s[1] || s[1] != s[2] || s[2] != s[3] {
				scanAll = true
			} else {
				a, l = s[0], s[0]
			}
			// 4-byte ≡ mapped on one sample
			if util.IsIANAReserved(mapped(ip4(base+1))) != s[1] {
				rep.Violate("C19|mapped_differs", fmt.Sprintf("%s classified differently in 4-byte and IPv4-mapped form", ip4(base+1)), map[string]interface{}{"op": "mapped", "ip": ip4(base + 1).String()})
			}
		}
		if scanAll {
			a, l = false, true
			for off := uint32(0); off < 256; off++ {
				r := util.IsIANAReserved(ip4(base + off))
				rep.Inc("addr_calls")
				a = a || r
				l = l && r
				// single-address network ⇔ address test
				if off%17 == 0 || fine[blk] {
					if util.IntersectsIANAReserved(net4(base+off, 32)) != r {
						rep.Violate("C19|slash32_differs", fmt.Sprintf("IntersectsIANAReserved(%s/32) ≠ IsIANAReserved(%s)=%v", ip4(base+off), ip4(base+off), r), map[string]interface{}{"op": "slash32", "ip": ip4(base + off).String()})
					}
					rep.Inc("net_calls")
				}
			}
			if a != l {
				rep.Inc("mixed_slash24")
				// all sub-networks of a mixed /24
				resv := make([]bool, 256)
				for off := uint32(0); off < 256; off++ {
					resv[off] = util.IsIANAReserved(ip4(base + off))
				}
				prev := map[uint32]bool{}
				for p := 32; p >= 25; p-- {
					size := uint32(1) << uint(32-p)
					cur := map[uint32]bool{}
					for off := uint32(0); off < 256; off += size {
						contains := false
						for k := off; k < off+size; k++ {
							contains = contains || resv[k]
						}
						got := util.IntersectsIANAReserved(net4(base+off, p))
						rep.Inc("net_calls")
						rep.Inc("states")
						cur[off] = got
						c19NetOracle(rep, net4(base+off, p), contains, got)
						if p < 32 && (prev[off] || prev[off+size/2]) && !got {
							rep.Violate("C19|not_monotone", fmt.Sprintf("a sub-network of %s/%d intersects reserved space but the network does not", ip4(base+off), p), map[string]interface{}{"op": "monotone", "net": fmt.Sprintf("%s/%d", ip4(base+off), p)})
						}
						if p == 32 && got != resv[off] {
							rep.Violate("C19|slash32_differs", fmt.Sprintf("IntersectsIANAReserved(%s/32)=%v but IsIANAReserved=%v", ip4(base+off), got, resv[off]), map[string]interface{}{"op": "slash32", "ip": ip4(base + off).String()})
						}
					}
					prev = cur
				}
			}
		}
		anyR[i], allR[i] = a, l
		if a {
			rep.Inc("slash24_with_reserved")
		}
		rep.Inc("slash24_blocks")
	}
	// networks of prefix 24 down to 8 inside this /8
	contains := anyR
	var prevGot []bool
	for p := 24; p >= 8; p-- {
		cnt := 1 << uint(p-8)
		if p < 24 {
			nc := make([]bool, cnt)
			for j := 0; j < cnt; j++ {
				nc[j] = contains[2*j] || contains[2*j+1]
			}
			contains = nc
		}
		got := make([]bool, cnt)
		for j := 0; j < cnt; j++ {
			base := top<<24 | uint32(j)<<uint(32-p)
			n := net4(base, p)
			got[j] = util.IntersectsIANAReserved(n)
			rep.Inc("net_calls")
			rep.Inc("states")
			c19NetOracle(rep, n, contains[j], got[j])
			if prevGot != nil && (prevGot[2*j] || prevGot[2*j+1]) && !got[j] {
				rep.Violate("C19|not_monotone", fmt.Sprintf("a sub-network of %s intersects reserved space but %s does not", n.String(), n.String()), map[string]interface{}{"op": "monotone", "net": n.String()})
			}
			// the same network given in 16-byte mapped form, on the /8../16 levels
			if p <= 16 {
				m := net.IPNet{IP: mapped(n.IP), Mask: net.CIDRMask(96+p, 128)}
				if util.IntersectsIANAReserved(m) != got[j] {
					rep.Violate("C19|mapped_net_differs", fmt.Sprintf("network %s answers differently in IPv4-mapped form", n.String()), map[string]interface{}{"op": "mapped_net", "net": n.String()})
				}
			}
		}
		prevGot = got
	}
	rep.Sample(2, map[string]interface{}{"slash8": top, "networks_checked": "all prefixes 8..24 inside it"})
}

func c19NetOracle(rep *core.Report, n net.IPNet, containsReserved, got bool) {
	rep.Inc("validated")
	rep.Inc("transitions")
	if containsReserved && !got {
		ones, _ := n.Mask.Size()
		rep.Violate("C19|intersects_misses_reserved|"+fmt.Sprintf("%s/%d", n.IP, ones), fmt.Sprintf("network %s/%d contains a reserved address but IntersectsIANAReserved is false", n.IP, ones),
			map[string]interface{}{"op": "intersects", "net": fmt.Sprintf("%s/%d", n.IP, ones)})
	}
	if got {
		rep.Inc("nets_intersecting")
	}
}

// c19Witness: short IPv4 prefixes (0..7) and all IPv6 prefix lengths around
// every block boundary: any witness address inside the network that the
// address test calls reserved obliges the network test to say "intersects".
func c19Witness(ctx *core.Ctx, rep *core.Report, blocks []string) {
	var w4 []net.IP
	var w6 []*big.Int
	seen := map[string]bool{}
	one := big.NewInt(1)
	max128 := new(big.Int).Sub(new(big.Int).Lsh(one, 128), one)
	for _, b := range blocks {
		_, n, err := net.ParseCIDR(b)
		if err != nil {
			continue
		}
		if v4 := n.IP.To4(); v4 != nil && len(n.Mask) == 4 {
			f := uint32(v4[0])<<24 | uint32(v4[1])<<16 | uint32(v4[2])<<8 | uint32(v4[3])
			ones, _ := n.Mask.Size()
			l := f | (uint32(0xffffffff) >> uint(ones))
			if ones == 0 {
				l = 0xffffffff
			}
			for _, a := range []uint32{f, l, f - 1, l + 1} {
				ip := ip4(a)
				if !seen[ip.String()] {
					seen[ip.String()] = true
					w4 = append(w4, ip)
				}
			}
			continue
		}
		f := ipToBig(n.IP.To16())
		ones, _ := n.Mask.Size()
		span := new(big.Int).Sub(new(big.Int).Lsh(one, uint(128-ones)), one)
		l := new(big.Int).Add(f, span)
		for _, a := range []*big.Int{f, l, new(big.Int).Sub(f, one), new(big.Int).Add(l, one)} {
			if a.Sign() < 0 || a.Cmp(max128) > 0 {
				continue
			}
			k := a.Text(16)
			if !seen[k] {
				seen[k] = true
				w6 = append(w6, new(big.Int).Set(a))
			}
		}
	}
	sort.Slice(w4, func(i, j int) bool { return string(w4[i]) < string(w4[j]) })
	rep.Add("g_ipv4_boundaries", int64(len(w4)))
	rep.Add("g_ipv6_boundaries", int64(len(w6)))
	r4 := make([]bool, len(w4))
	for i, a := range w4 {
		r4[i] = util.IsIANAReserved(a)
	}
	// IPv4 prefixes 0..7: all networks; witnesses decide "contains reserved"
	var prev []bool
	for p := 7; p >= 0; p-- {
		cnt := 1 << uint(p)
		got := make([]bool, cnt)
		for j := 0; j < cnt; j++ {
			var base uint32
			if p > 0 {
				base = uint32(j) << uint(32-p)
			}
			n := net4(base, p)
			got[j] = util.IntersectsIANAReserved(n)
			contains := false
			for i, a := range w4 {
				if r4[i] && n.Contains(a) {
					contains = true
					break
				}
			}
			rep.Inc("states")
			c19NetOracle(rep, n, contains, got[j])
			if prev != nil && (prev[2*j] || prev[2*j+1]) && !got[j] {
				rep.Violate("C19|not_monotone", fmt.Sprintf("a sub-network of %s intersects reserved space but it does not", n.String()), map[string]interface{}{"op": "monotone", "net": n.String()})
			}
		}
		prev = got
	}
	// unmasked bases (IP not the first address of the network) around every IPv4 boundary
	for i, a := range w4 {
		for p := 0; p <= 32; p++ {
			n := net.IPNet{IP: a, Mask: net.CIDRMask(p, 32)}
			got := util.IntersectsIANAReserved(n)
			rep.Inc("states")
			c19NetOracle(rep, n, r4[i], got)
			if p == 32 && got != r4[i] {
				rep.Violate("C19|slash32_differs", fmt.Sprintf("IntersectsIANAReserved(%s/32)=%v but IsIANAReserved=%v", a, got, r4[i]), map[string]interface{}{"op": "slash32", "ip": a.String()})
			}
		}
	}
	// IPv6: every boundary × all 129 prefix lengths, masked and unmasked base
	r6 := make([]bool, len(w6))
	ips6 := make([]net.IP, len(w6))
	for i, a := range w6 {
		ips6[i] = bigToIP16(a)
		r6[i] = util.IsIANAReserved(ips6[i])
	}
	for i := range w6 {
		var prevGot bool
		for p := 128; p >= 0; p-- {
			mask := net.CIDRMask(p, 128)
			masked := ips6[i].Mask(mask)
			for _, base := range []net.IP{masked, ips6[i]} {
				n := net.IPNet{IP: base, Mask: mask}
				got := util.IntersectsIANAReserved(n)
				contains := false
				for k := range w6 {
					if r6[k] && n.Contains(ips6[k]) {
						contains = true
						break
					}
				}
				if !contains {
					// first/last address of the network as further witnesses
					last := make(net.IP, 16)
					for b := 0; b < 16; b++ {
						last[b] = masked[b] | ^mask[b]
					}
					contains = util.IsIANAReserved(masked) || util.IsIANAReserved(last)
				}
				rep.Inc("states")
				rep.Inc("ipv6_nets")
				c19NetOracle(rep, n, contains, got)
				if p == 128 && got != r6[i] {
					rep.Violate("C19|slash128_differs", fmt.Sprintf("IntersectsIANAReserved(%s/128)=%v but IsIANAReserved=%v", ips6[i], got, r6[i]), map[string]interface{}{"op": "slash128", "ip": ips6[i].String()})
				}
				if base.Equal(masked) {
					if p < 128 && prevGot && !got {
						rep.Violate("C19|not_monotone", fmt.Sprintf("%s/%d intersects reserved space but its super-network /%d does not", ips6[i], p+1, p), map[string]interface{}{"op": "monotone", "net": fmt.Sprintf("%s/%d", masked, p)})
					}
					prevGot = got
				}
			}
		}
	}
	rep.Sample(6, map[string]interface{}{"ipv6_boundary": ips6[0].String(), "prefixes": "0..128 masked and unmasked"})
}

// c19Lints: the four lints report what the util functions answer.
func c19Lints(ctx *core.Ctx, rep *core.Report, blocks []string) {
	names := []string{"e_ext_san_contains_reserved_ip", "e_subject_contains_reserved_ip", "e_ext_nc_intersects_reserved_ip", "e_subject_contains_reserved_arpa_ip"}
	var have []string
	for _, n := range names {
		if lint.GlobalRegistry().CertificateLints().ByName(n) != nil {
			have = append(have, n)
		} else {
			rep.Hole("lint %s no longer registered", n)
		}
	}
	reg, err := lint.GlobalRegistry().Filter(lint.FilterOptions{IncludeNames: have})
	if err != nil {
		rep.InternalError("%v", err)
		return
	}
	type addr struct {
		ip     net.IP
		prefix int
	}
	var addrs []addr
	seen := map[string]bool{}
	add := func(ip net.IP, p int) {
		k := ip.String() + "/" + strconv.Itoa(p)
		if !seen[k] {
			seen[k] = true
			addrs = append(addrs, addr{ip, p})
		}
	}
	for _, b := range blocks {
		_, n, err := net.ParseCIDR(b)
		if err != nil {
			continue
		}
		ones, bits := n.Mask.Size()
		first := n.IP
		last := make(net.IP, len(first))
		for i := range first {
			last[i] = first[i] | ^n.Mask[i]
		}
		add(first, ones)
		add(last, ones)
		// the neighbours just outside the block (usually public)
		if f4 := first.To4(); f4 != nil && len(n.Mask) == 4 {
			f := uint32(f4[0])<<24 | uint32(f4[1])<<16 | uint32(f4[2])<<8 | uint32(f4[3])
			l4 := last.To4()
			l := uint32(l4[0])<<24 | uint32(l4[1])<<16 | uint32(l4[2])<<8 | uint32(l4[3])
			if f > 0 {
				add(ip4(f-1), 32)
			}
			if l < 0xffffffff {
				add(ip4(l+1), 32)
			}
		}
		_ = bits
	}
	for _, s := range c19Public {
		ip := net.ParseIP(s)
		if v4 := ip.To4(); v4 != nil {
			add(net.IP(v4), 32)
		} else {
			add(ip, 128)
		}
	}
	pub := net.IP{8, 8, 8, 8}
	check := func(b []byte, what string, expect map[string]bool) {
		o, err := zl.Parse(seeds.Cert, b)
		if err != nil {
			rep.Inc("parser_rejected")
			return
		}
		rs, p := zl.Lint(o, reg)
		rep.Inc("states")
		rep.Inc("transitions")
		if p != nil || rs == nil {
			rep.Violate("C19|lint|panic", fmt.Sprint(p), map[string]interface{}{"kind": "cert", "der_hex": hex.EncodeToString(b)})
			return
		}
		for ln, want := range expect {
			r := rs.Results[ln]
			if r == nil || (r.Status != lint.Pass && r.Status != lint.Error) {
				continue
			}
			rep.Inc("validated")
			rep.Tab("lint_judged", ln+"|"+r.Status.String())
			if (r.Status == lint.Error) != want {
				rep.Violate("C19|lint|"+ln, fmt.Sprintf("%s=%s but the util answer is reserved=%v [%s]", ln, r.Status, want, what),
					map[string]interface{}{"kind": "cert", "der_hex": hex.EncodeToString(b), "what": what})
			}
		}
	}
	for _, a := range addrs {
		resv := util.IsIANAReserved(a.ip)
		v4 := len(a.ip) == 4
		// SAN iPAddress (alone, and after / before a public address)
		for _, order := range [][]net.IP{{a.ip}, {pub, a.ip}, {a.ip, pub}} {
			s := tlsLeafSpec(date(2020, 6, 1), date(2021, 6, 1))
			var gns []*der.Node
			for _, ip := range order {
				gns = append(gns, certgen.GNIP(ip))
			}
			s.Exts[len(s.Exts)-1] = certgen.SAN(false, gns...)
			check(s.Build(), fmt.Sprintf("SAN iPAddress %v", order), map[string]bool{"e_ext_san_contains_reserved_ip": resv})
		}
		// CN as IP literal
		s := tlsLeafSpec(date(2020, 6, 1), date(2021, 6, 1))
		s.Subject = certgen.Name(certgen.ATV{OID: certgen.OIDC, Tag: 19, Val: "US"}, certgen.ATV{OID: certgen.OIDCN, Tag: 12, Val: a.ip.String()})
		check(s.Build(), "CN "+a.ip.String(), map[string]bool{"e_subject_contains_reserved_ip": resv})
		// reverse-DNS name
		var arpa string
		if v4 {
			arpa = fmt.Sprintf("%d.%d.%d.%d.in-addr.arpa", a.ip[3], a.ip[2], a.ip[1], a.ip[0])
		} else {
			h := hex.EncodeToString(a.ip)
			var parts []string
			for i := len(h) - 1; i >= 0; i-- {
				parts = append(parts, string(h[i]))
			}
			arpa = strings.Join(parts, ".") + ".ip6.arpa"
		}
		s = tlsLeafSpec(date(2020, 6, 1), date(2021, 6, 1))
		s.Exts[len(s.Exts)-1] = certgen.SAN(false, certgen.GNDNS("example.com"), certgen.GNDNS(arpa))
		if !(len(a.ip) == 16 && a.ip.To4() != nil) { // v4-mapped v6 arpa names are reported for a different reason
			check(s.Build(), "arpa "+arpa, map[string]bool{"e_subject_contains_reserved_arpa_ip": resv})
		}
		// name constraints: the block itself, its super-networks, and /32
		bits := 32
		if !v4 {
			bits = 128
		}
		for _, p := range []int{a.prefix, a.prefix - 1, a.prefix - 3, bits, 0, 4, 7, 8} {
			if p < 0 || p > bits {
				continue
			}
			mask := net.CIDRMask(p, bits)
			base := a.ip.Mask(mask)
			n := net.IPNet{IP: base, Mask: mask}
			want := util.IntersectsIANAReserved(n)
			ca := certgen.Spec{
				Subject:   certgen.Name(certgen.ATV{OID: certgen.OIDC, Tag: 19, Val: "US"}, certgen.ATV{OID: certgen.OIDO, Tag: 12, Val: "Sub"}, certgen.ATV{OID: certgen.OIDCN, Tag: 12, Val: "Constrained CA"}),
				NotBefore: date(2020, 6, 1), NotAfter: date(2025, 6, 1),
				Exts: []*der.Node{certgen.KeyUsage(5, 6), certgen.EKU(certgen.EKUServerAuth), certgen.BasicConstraints(true, true),
					certgen.NameConstraintsIP([][]byte{append(append([]byte{}, base...), mask...)}, nil)},
			}
			check(ca.Build(), "permitted "+n.String(), map[string]bool{"e_ext_nc_intersects_reserved_ip": want})
			// preceded by a public network: order must not matter
			ca.Exts[3] = certgen.NameConstraintsIP([][]byte{{8, 8, 8, 0, 255, 255, 255, 0}, append(append([]byte{}, base...), mask...)}, nil)
			check(ca.Build(), "permitted 8.8.8.0/24,"+n.String(), map[string]bool{"e_ext_nc_intersects_reserved_ip": want})
		}
		// lists of two permitted ranges, NESTED either way: every ordered pair of the chain of networks around this address
		// (the address itself, small clear ranges, the block, its super-networks). The list is judged as a set: error ⇔
		// some range intersects — whichever comes first, and whichever contains the other.
		var chain []net.IPNet
		seenNet := map[string]bool{}
		for _, p := range []int{bits, bits - 2, bits - 8, a.prefix, a.prefix - 1, a.prefix - 3, 8, 6, 4} {
			if p < 0 || p > bits {
				continue
			}
			mask := net.CIDRMask(p, bits)
			n := net.IPNet{IP: a.ip.Mask(mask), Mask: mask}
			if !seenNet[n.String()] {
				seenNet[n.String()] = true
				chain = append(chain, n)
			}
		}
		for i := range chain {
			for j := range chain {
				if i == j {
					continue
				}
				want := util.IntersectsIANAReserved(chain[i]) || util.IntersectsIANAReserved(chain[j])
				enc := func(n net.IPNet) []byte { return append(append([]byte{}, n.IP...), n.Mask...) }
				ca := certgen.Spec{
					Subject:   certgen.Name(certgen.ATV{OID: certgen.OIDC, Tag: 19, Val: "US"}, certgen.ATV{OID: certgen.OIDO, Tag: 12, Val: "Sub"}, certgen.ATV{OID: certgen.OIDCN, Tag: 12, Val: "Constrained CA"}),
					NotBefore: date(2020, 6, 1), NotAfter: date(2025, 6, 1),
					Exts: []*der.Node{certgen.KeyUsage(5, 6), certgen.EKU(certgen.EKUServerAuth), certgen.BasicConstraints(true, true),
						certgen.NameConstraintsIP([][]byte{enc(chain[i]), enc(chain[j])}, nil)},
				}
				check(ca.Build(), "permitted "+chain[i].String()+","+chain[j].String(), map[string]bool{"e_ext_nc_intersects_reserved_ip": want})
				rep.Inc("nested_constraint_pairs")
			}
		}
	}
}
