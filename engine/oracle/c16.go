package oracle

import (
	"encoding/hex"
	"fmt"
	"math/big"
	"regexp"
	"strings"
	"time"

	"github.com/zmap/zlint/v3/lint"

	"verif/certgen"
	"verif/core"
	"verif/der"
	"verif/keys"
	"verif/seeds"
	"verif/zl"
)

func init() {
	core.Checks["C16"] = checkC16
	core.Replayers["C16"] = replayC16
}

// ---- independent arithmetic reference -------------------------------------

func refBitLen(n *big.Int) int {
	b := n.Bytes()
	if len(b) == 0 {
		return 0
	}
	l := len(b) * 8
	for m := byte(0x80); m != 0 && b[0]&m == 0; m >>= 1 {
		l--
	}
	return l
}

func refHasFactorBelow752(n *big.Int) bool {
	r := new(big.Int)
	for d := int64(2); d < 752; d++ {
		if r.Mod(n, big.NewInt(d)).Sign() == 0 {
			return true
		}
	}
	return false
}

// refISqrt: floor(sqrt(n)) by Newton iteration (not big.Int.Sqrt).
func refISqrt(n *big.Int) *big.Int {
	if n.Sign() <= 0 {
		return big.NewInt(0)
	}
	x := new(big.Int).Lsh(big.NewInt(1), uint((refBitLen(n)+1)/2))
	for {
		y := new(big.Int).Div(n, x)
		y.Add(y, x)
		y.Rsh(y, 1)
		if y.Cmp(x) >= 0 {
			return x
		}
		x = y
	}
}

// refFermatIndex: for N = p·q (p < q, both odd) the 0-based round in which
// Fermat's method starting at ceil(sqrt N) finds the factors.
func refFermatIndex(p, q *big.Int) *big.Int {
	n := new(big.Int).Mul(p, q)
	s := refISqrt(n)
	if new(big.Int).Mul(s, s).Cmp(n) != 0 {
		s.Add(s, big.NewInt(1))
	}
	a := new(big.Int).Add(p, q)
	a.Rsh(a, 1)
	return a.Sub(a, s)
}

type rsaPred struct {
	name    string
	finding lint.LintStatus
	pred    func(n, e *big.Int) bool
}

var rsaPreds = []rsaPred{
	{"e_rsa_mod_less_than_2048_bits", lint.Error, func(n, e *big.Int) bool { return refBitLen(n) < 2048 }},
	{"e_mp_modulus_must_be_2048_bits_or_more", lint.Error, func(n, e *big.Int) bool { return refBitLen(n) < 2048 }},
	{"e_old_root_ca_rsa_mod_less_than_2048_bits", lint.Error, func(n, e *big.Int) bool { return refBitLen(n) < 2048 }},
	{"e_old_sub_ca_rsa_mod_less_than_1024_bits", lint.Error, func(n, e *big.Int) bool { return refBitLen(n) < 1024 }},
	{"e_old_sub_cert_rsa_mod_less_than_1024_bits", lint.Error, func(n, e *big.Int) bool { return refBitLen(n) < 1024 }},
	{"e_cs_rsa_key_size", lint.Error, func(n, e *big.Int) bool { return refBitLen(n) < 3072 }},
	{"e_mp_modulus_must_be_divisible_by_8", lint.Error, func(n, e *big.Int) bool { return refBitLen(n)%8 != 0 }},
	{"w_rsa_mod_not_odd", lint.Warn, func(n, e *big.Int) bool { return n.Bit(0) == 0 }},
	{"w_rsa_mod_factors_smaller_than_752", lint.Warn, func(n, e *big.Int) bool { return refHasFactorBelow752(n) }},
	{"e_rsa_public_exponent_not_odd", lint.Error, func(n, e *big.Int) bool { return e.Bit(0) == 0 }},
	{"e_rsa_public_exponent_too_small", lint.Error, func(n, e *big.Int) bool { return e.Cmp(big.NewInt(3)) < 0 }},
	{"e_mp_exponent_cannot_be_one", lint.Error, func(n, e *big.Int) bool { return e.Cmp(big.NewInt(1)) == 0 }},
	{"w_rsa_public_exponent_not_in_range", lint.Warn, func(n, e *big.Int) bool { return e.Cmp(big.NewInt(65537)) < 0 }},
}

// ---- templates ---------------------------------------------------------------

type rsaTemplate struct {
	name  string
	build func(spki *der.Node) []byte
}

func tlsLeafSpec(nb, na time.Time) certgen.Spec {
	return certgen.Spec{
		Subject:   certgen.Name(certgen.ATV{OID: certgen.OIDC, Tag: 19, Val: "US"}, certgen.ATV{OID: certgen.OIDCN, Tag: 12, Val: "example.com"}),
		NotBefore: nb, NotAfter: na,
		Exts: []*der.Node{
			certgen.KeyUsage(0, 2),
			certgen.EKU(certgen.EKUServerAuth, certgen.EKUClientAuth),
			certgen.BasicConstraints(false, true),
			certgen.Policies(certgen.PolDV),
			certgen.SAN(false, certgen.GNDNS("example.com")),
		},
	}
}

func date(y, m, d int) time.Time { return time.Date(y, time.Month(m), d, 0, 0, 0, 0, time.UTC) }

func rsaTemplates() []rsaTemplate {
	var out []rsaTemplate
	out = append(out, rsaTemplate{"tls_leaf_2020", func(spki *der.Node) []byte {
		s := tlsLeafSpec(date(2020, 6, 1), date(2021, 6, 1))
		s.SPKI = spki
		return s.Build()
	}})
	out = append(out, rsaTemplate{"old_sub_cert_2010_2013", func(spki *der.Node) []byte {
		s := tlsLeafSpec(date(2010, 6, 1), date(2013, 6, 1))
		s.SPKI = spki
		return s.Build()
	}})
	out = append(out, rsaTemplate{"old_sub_ca_2010_2013", func(spki *der.Node) []byte {
		s := certgen.Spec{
			Subject:   certgen.Name(certgen.ATV{OID: certgen.OIDC, Tag: 19, Val: "US"}, certgen.ATV{OID: certgen.OIDO, Tag: 12, Val: "Sub"}, certgen.ATV{OID: certgen.OIDCN, Tag: 12, Val: "Sub CA"}),
			NotBefore: date(2010, 6, 1), NotAfter: date(2013, 6, 1), SPKI: spki,
			Exts: []*der.Node{certgen.KeyUsage(5, 6), certgen.BasicConstraints(true, true)},
		}
		return s.Build()
	}})
	out = append(out, rsaTemplate{"code_signing_leaf_2021", func(spki *der.Node) []byte {
		s := certgen.Spec{
			Subject:   certgen.Name(certgen.ATV{OID: certgen.OIDC, Tag: 19, Val: "US"}, certgen.ATV{OID: certgen.OIDO, Tag: 12, Val: "Signer"}, certgen.ATV{OID: certgen.OIDCN, Tag: 12, Val: "Signer"}),
			NotBefore: date(2021, 6, 1), NotAfter: date(2022, 6, 1), SPKI: spki,
			Exts: []*der.Node{certgen.KeyUsage(0), certgen.EKU(certgen.EKUCodeSigning), certgen.BasicConstraints(false, true), certgen.Policies(certgen.PolCS)},
		}
		return s.Build()
	}})
	return out
}

// selfSignedRoot builds a really self-signed old root with a committed key.
func selfSignedRoot(bits int) []byte {
	k := keys.RSA(bits)
	name := certgen.Name(certgen.ATV{OID: certgen.OIDC, Tag: 19, Val: "US"}, certgen.ATV{OID: certgen.OIDO, Tag: 12, Val: "Root"}, certgen.ATV{OID: certgen.OIDCN, Tag: 12, Val: "Old Root"})
	s := certgen.Spec{
		Issuer: name, Subject: name.Clone(), NotBefore: date(2009, 6, 1), NotAfter: date(2029, 6, 1),
		SPKI: certgen.RSASPKI(k.N, big.NewInt(int64(k.E))),
		Exts: []*der.Node{certgen.KeyUsage(5, 6), certgen.BasicConstraints(true, true)},
	}
	t := s.Tree()
	sig := keys.SignSHA256RSA(k, t.Children[0].Encode())
	t.Children[2] = der.Bits(sig, 0)
	return t.Encode()
}

// ---- value spaces ------------------------------------------------------------

func pow2(b int) *big.Int { return new(big.Int).Lsh(big.NewInt(1), uint(b)) }

func nextPrime(n *big.Int) *big.Int {
	p := new(big.Int).Set(n)
	if p.Bit(0) == 0 {
		p.Add(p, big.NewInt(1))
	}
	for !p.ProbablyPrime(8) {
		p.Add(p, big.NewInt(2))
	}
	return p
}

type nval struct {
	desc string
	n    *big.Int
}

func rsaModuli(quick bool) []nval {
	var out []nval
	var bl []int
	for _, c := range []int{1024, 2048, 3072} {
		for b := c - 8; b <= c+8; b++ {
			bl = append(bl, b)
		}
	}
	bl = append(bl, 512, 4096)
	for _, b := range bl {
		out = append(out, nval{fmt.Sprintf("2^%d (even)", b-1), pow2(b - 1)})
		out = append(out, nval{fmt.Sprintf("2^%d+1", b-1), new(big.Int).Add(pow2(b-1), big.NewInt(1))})
		out = append(out, nval{fmt.Sprintf("2^%d-1", b), new(big.Int).Sub(pow2(b), big.NewInt(1))})
	}
	P := nextPrime(pow2(599))
	out = append(out, nval{"P (600-bit prime)", P})
	out = append(out, nval{"P*P2", new(big.Int).Mul(P, nextPrime(new(big.Int).Add(P, big.NewInt(2))))})
	step := int64(1)
	for d := int64(2); d <= 800; d += step {
		out = append(out, nval{fmt.Sprintf("%d*P", d), new(big.Int).Mul(big.NewInt(d), P)})
	}
	// products of two primes just above the bound, and squares of the largest table primes
	for _, d := range []int64{743 * 743, 751 * 751, 751 * 757, 757 * 761, 757 * 757} {
		out = append(out, nval{fmt.Sprintf("%d*P", d), new(big.Int).Mul(big.NewInt(d), P)})
	}
	return out
}

func rsaExponents() []*big.Int {
	var out []*big.Int
	for _, v := range []int64{1, 2, 3, 4, 5, 17, 65535, 65536, 65537, 65538, 65539, 1<<31 - 1, 1 << 31, 1<<31 + 1, 1<<32 + 1, 1 << 62, 1<<63 - 1} {
		out = append(out, big.NewInt(v))
	}
	return out
}

var fermatFactors = regexp.MustCompile(`p: (\d+); q: (\d+)`)

func rsaRegistry() (lint.Registry, []string, error) {
	var names []string
	for _, p := range rsaPreds {
		names = append(names, p.name)
	}
	names = append(names, "e_rsa_fermat_factorization")
	var have []string
	for _, n := range names {
		if lint.GlobalRegistry().CertificateLints().ByName(n) != nil {
			have = append(have, n)
		}
	}
	r, err := lint.GlobalRegistry().Filter(lint.FilterOptions{IncludeNames: have})
	return r, have, err
}

func judged(s lint.LintStatus) bool {
	return s == lint.Pass || s == lint.Notice || s == lint.Warn || s == lint.Error
}

// c16Judge compares every RSA lint on one certificate with the reference.
func c16Judge(derBytes []byte, n, e *big.Int, reg lint.Registry, rep *core.Report, tmpl string, applic map[string]map[bool]int) [][2]string {
	o, err := zl.Parse(seeds.Cert, derBytes)
	if err != nil {
		if rep != nil {
			rep.Inc("parser_rejected")
		}
		return nil
	}
	rs, p := zl.Lint(o, reg)
	if p != nil || rs == nil {
		return [][2]string{{"C16|panic", fmt.Sprint(p)}}
	}
	if rep != nil {
		rep.Inc("states")
		rep.Inc("validated")
	}
	var bad [][2]string
	for _, pr := range rsaPreds {
		r := rs.Results[pr.name]
		if r == nil {
			continue
		}
		if applic != nil {
			k := tmpl + "|" + pr.name
			if applic[k] == nil {
				applic[k] = map[bool]int{}
			}
			applic[k][judged(r.Status)]++
		}
		if !judged(r.Status) {
			continue
		}
		if rep != nil {
			rep.Tab("judged", pr.name)
		}
		want := pr.pred(n, e)
		got := r.Status == pr.finding
		if r.Status != lint.Pass && r.Status != pr.finding {
			bad = append(bad, [2]string{"C16|" + pr.name + "|unexpected_status", fmt.Sprintf("%s returned %s", pr.name, r.Status)})
			continue
		}
		if want != got {
			bad = append(bad, [2]string{"C16|" + pr.name + "|predicate", fmt.Sprintf("%s: predicate is %v for N(bits=%d, N mod 2=%d) e=%s but lint says %s", pr.name, want, refBitLen(n), n.Bit(0), e.String(), r.Status)})
		}
		if rep != nil {
			if want {
				rep.Tab("finding_true", pr.name)
			} else {
				rep.Tab("finding_false", pr.name)
			}
		}
	}
	return bad
}

func checkC16(ctx *core.Ctx, rep *core.Report) {
	reg, have, err := rsaRegistry()
	if err != nil {
		rep.InternalError("registry: %v", err)
		return
	}
	for _, p := range rsaPreds {
		found := false
		for _, h := range have {
			found = found || h == p.name
		}
		if !found {
			rep.Hole("RSA lint %s no longer registered", p.name)
		}
	}
	tmpls := rsaTemplates()
	moduli := rsaModuli(ctx.Quick())
	exps := rsaExponents()
	goodN := moduli[0].n
	for _, m := range moduli {
		if m.desc == "2^2047+1" {
			goodN = m.n
		}
	}
	applic := map[string]map[bool]int{}
	idx := 0
	run := func(t rsaTemplate, nd string, n, e *big.Int) {
		idx++
		if !ctx.Mine(uint64(idx)) {
			return
		}
		b := t.build(certgen.RSASPKI(n, e))
		rep.Inc("transitions")
		alone := map[string]bool{}
		for _, v := range c16Judge(b, n, e, reg, rep, t.name, applic) {
			alone[v[0]] = true
			rep.Violate(v[0], v[1]+" [template "+t.name+" N="+nd+" e="+e.String()+"]", map[string]interface{}{
				"kind": "cert", "der_hex": hex.EncodeToString(b), "n_hex": n.Text(16), "e": e.String(), "template": t.name})
		}
		// the same key inside ONE run of the whole registry: the key-quality lints then run in registration order, with
		// every other lint before and between them on the same parsed key (a lint that touches the key changes what the
		// next one measures)
		rep.Inc("full_registry_runs")
		for _, v := range c16Judge(b, n, e, lint.GlobalRegistry(), nil, t.name, nil) {
			if alone[v[0]] {
				continue
			}
			rep.Violate(v[0]+"|in a full run", v[1]+" — in one run of the whole registry (correct when only the key-quality lints run) [template "+t.name+" N="+nd+" e="+e.String()+"]", map[string]interface{}{
				"kind": "cert", "der_hex": hex.EncodeToString(b), "n_hex": n.Text(16), "e": e.String(), "template": t.name, "registry": "global"})
		}
		rep.Sample(3, map[string]interface{}{"template": t.name, "N": nd, "e": e.String()})
	}
	for _, t := range tmpls {
		for _, m := range moduli {
			for _, e := range []int64{65537, 3, 1, 2} {
				run(t, m.desc, m.n, big.NewInt(e))
			}
		}
		for _, e := range exps {
			for _, m := range []nval{{"2^2047+1", goodN}, moduli[0], moduli[1]} {
				run(t, m.desc, m.n, e)
			}
		}
	}
	// applicability must not depend on the key's arithmetic (same template ⇒ same judged-ness)
	for k, v := range applic {
		if v[true] > 0 && v[false] > 0 {
			rep.Violate("C16|"+strings.SplitN(k, "|", 2)[1]+"|applicability_depends_on_key",
				fmt.Sprintf("%s: judged on %d keys but NA/NE on %d keys of the same template", k, v[true], v[false]), map[string]interface{}{"op": "applicability", "cell": k})
		}
	}
	// really self-signed old roots with committed keys
	if ctx.Shard == 0 {
		for _, bits := range []int{1023, 1024, 2047, 2048} {
			k := keys.RSA(bits)
			b := selfSignedRoot(bits)
			rep.Inc("transitions")
			for _, v := range c16Judge(b, k.N, big.NewInt(int64(k.E)), reg, rep, "old_root", nil) {
				rep.Violate(v[0], v[1]+fmt.Sprintf(" [self-signed old root, %d-bit key]", bits), map[string]interface{}{
					"kind": "cert", "der_hex": hex.EncodeToString(b), "n_hex": k.N.Text(16), "e": fmt.Sprint(k.E), "template": "old_root"})
			}
		}
	}
	c16Fermat(ctx, rep)
	if ctx.NShards == 1 || ctx.Shard == 0 {
		_ = have
	}
}

// c16Fermat: products of close primes × round counts.
func c16Fermat(ctx *core.Ctx, rep *core.Report) {
	const name = "e_rsa_fermat_factorization"
	if lint.GlobalRegistry().CertificateLints().ByName(name) == nil {
		rep.Hole("lint %s no longer registered", name)
		return
	}
	tmpl := rsaTemplates()[0]
	rounds := []string{"unset", "0", "1", "2", "3", "10", "100", "101", "-1"}
	regs := map[string]lint.Registry{}
	roundVal := map[string]int64{}
	for _, r := range rounds {
		reg, err := lint.GlobalRegistry().Filter(lint.FilterOptions{IncludeNames: []string{name}})
		if err != nil {
			rep.InternalError("filter: %v", err)
			return
		}
		if r == "unset" {
			roundVal[r] = 100 // documented default
			// the default is read from the generated example configuration as a cross-check
		} else {
			cfg, err := lint.NewConfigFromString("[" + name + "]\nRounds = " + r + "\n")
			if err != nil {
				rep.InternalError("config: %v", err)
				return
			}
			reg.SetConfiguration(cfg)
			fmt.Sscan(r, new(int64))
			var v int64
			fmt.Sscan(r, &v)
			roundVal[r] = v
		}
		regs[r] = reg
	}
	type pair struct{ p, q *big.Int }
	var pairs []pair
	scales := []int{32, 64, 512, 1024}
	nP := 6
	targets := 112
	if ctx.Quick() {
		nP = 2
	}
	for _, sc := range scales {
		base := new(big.Int).Add(pow2(sc-1), pow2(sc-3))
		p := nextPrime(base)
		for i := 0; i < nP; i++ {
			for t := 0; t < targets; t++ {
				// q ≈ p + sqrt(8·t·p) puts the Fermat index near t
				d := new(big.Int).Mul(big.NewInt(int64(8*t)), p)
				d = refISqrt(d)
				q := nextPrime(new(big.Int).Add(new(big.Int).Add(p, d), big.NewInt(2)))
				pairs = append(pairs, pair{p, q})
			}
			p = nextPrime(new(big.Int).Add(p, big.NewInt(2)))
		}
	}
	// all pairs inside a window of consecutive 32-bit primes
	win := 40
	if !ctx.Quick() {
		win = 300
	}
	var ws []*big.Int
	p := nextPrime(big.NewInt(3000000000))
	for len(ws) < win {
		ws = append(ws, p)
		p = nextPrime(new(big.Int).Add(p, big.NewInt(2)))
	}
	for i := 0; i < len(ws); i++ {
		for j := i + 1; j < len(ws); j++ {
			pairs = append(pairs, pair{ws[i], ws[j]})
		}
	}
	e := big.NewInt(65537)
	for i, pq := range pairs {
		if !ctx.Mine(uint64(i)) {
			continue
		}
		n := new(big.Int).Mul(pq.p, pq.q)
		idx := refFermatIndex(pq.p, pq.q)
		b := tmpl.build(certgen.RSASPKI(n, e))
		o, err := zl.Parse(seeds.Cert, b)
		if err != nil {
			rep.Inc("parser_rejected")
			continue
		}
		if idx.IsInt64() && idx.Int64() < 200 {
			rep.SetAdd("fermat_indices", idx.String())
		}
		for _, r := range rounds {
			rs, pn := zl.Lint(o, regs[r])
			rep.Inc("transitions")
			if pn != nil || rs == nil || rs.Results[name] == nil {
				rep.Violate("C16|"+name+"|panic", fmt.Sprint(pn), nil)
				continue
			}
			res := rs.Results[name]
			rep.Inc("states")
			rep.Inc("validated")
			rep.Inc("fermat_runs")
			want := idx.Cmp(big.NewInt(roundVal[r])) < 0
			got := res.Status == lint.Error
			art := map[string]interface{}{"kind": "cert", "der_hex": hex.EncodeToString(b), "p": pq.p.String(), "q": pq.q.String(), "rounds": r, "op": "fermat"}
			if res.Status != lint.Error && res.Status != lint.Pass {
				rep.Violate("C16|"+name+"|unexpected_status", fmt.Sprintf("status %s", res.Status), art)
				continue
			}
			if want != got {
				rep.Violate("C16|"+name+"|rounds", fmt.Sprintf("N=p·q with Fermat index %s, Rounds=%s: expected error=%v, lint says %s [p=%s q=%s]", idx, r, want, res.Status, pq.p, pq.q), art)
			}
			if got {
				rep.Tab("fermat", "error")
				m := fermatFactors.FindStringSubmatch(res.Details)
				if m == nil {
					rep.Violate("C16|"+name+"|no_factors_in_details", "error without a factorisation in the details: "+res.Details, art)
				} else {
					a, _ := new(big.Int).SetString(m[1], 10)
					c, _ := new(big.Int).SetString(m[2], 10)
					if new(big.Int).Mul(a, c).Cmp(n) != 0 {
						rep.Violate("C16|"+name+"|factors_do_not_multiply", fmt.Sprintf("reported p·q ≠ N: %s", res.Details), art)
					}
				}
			} else {
				rep.Tab("fermat", "pass")
			}
		}
	}
}

func replayC16(rp map[string]interface{}) (string, error) {
	if op, _ := rp["op"].(string); op != "" {
		return "", fmt.Errorf("op replay %s is re-run by the check itself", op)
	}
	h, _ := rp["der_hex"].(string)
	b, err := hex.DecodeString(h)
	if err != nil {
		return "", err
	}
	n, ok := new(big.Int).SetString(fmt.Sprint(rp["n_hex"]), 16)
	e, ok2 := new(big.Int).SetString(fmt.Sprint(rp["e"]), 10)
	if !ok || !ok2 {
		return "", fmt.Errorf("artefact lacks n/e")
	}
	reg, _, err := rsaRegistry()
	if err != nil {
		return "", err
	}
	if r, _ := rp["registry"].(string); r == "global" {
		reg = lint.GlobalRegistry()
	}
	if bad := c16Judge(b, n, e, reg, nil, "", nil); len(bad) > 0 {
		return bad[0][0] + ": " + bad[0][1], nil
	}
	return "", nil
}
