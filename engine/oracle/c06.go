package oracle

import (
	"fmt"
	"sort"
	"strings"

	"github.com/zmap/zlint/v3/lint"

	"verif/core"
	"verif/seeds"
	"verif/srcmodel"
	"verif/xstate"
	"verif/zl"
)

func init() {
	core.Checks["C06"] = checkC06
	core.Replayers["C06"] = replayC06
}

var statusConstName = map[lint.LintStatus]string{lint.Reserved: "Reserved", lint.NA: "NA", lint.NE: "NE", lint.Pass: "Pass", lint.Notice: "Notice", lint.Warn: "Warn", lint.Error: "Error", lint.Fatal: "Fatal"}

// offPrefix: the statuses a name's prefix forbids.
func offPrefix(name string) (forbidden []string, okPrefix bool) {
	switch {
	case strings.HasPrefix(name, "e_"):
		return []string{"Warn", "Notice"}, true
	case strings.HasPrefix(name, "w_"):
		return []string{"Error", "Notice"}, true
	case strings.HasPrefix(name, "n_"):
		return []string{"Warn", "Error"}, true
	}
	return nil, false
}

func labelOf(constName string) string {
	for s, n := range statusConstName {
		if n == constName {
			return s.String()
		}
	}
	return constName
}

func checkC06(ctx *core.Ctx, rep *core.Report) {
	var model *srcmodel.StatusModel
	if ctx.Shard == 0 {
		cen, err := srcmodel.TakeCensus(seeds.RepoDir())
		if err != nil {
			rep.InternalError("census: %v", err)
			return
		}
		model = srcmodel.BuildStatusModel(seeds.RepoDir(), cen)
		rep.Add("g_model_lints", int64(len(model.Reach)))
		rep.Add("g_model_functions", int64(model.Funcs))
		for _, u := range model.Unresolved {
			rep.Hole("status model: Execute of %s could not be located in the sources (dynamic pass only)", u)
		}
		// exactly one of the three prefixes, for every registered lint
		for _, n := range lint.GlobalRegistry().Names() {
			rep.Inc("states")
			rep.Inc("validated")
			if _, ok := offPrefix(n); !ok {
				rep.Violate("C06|"+n+"|prefix", "lint name "+n+" carries none of the prefixes e_, w_, n_", map[string]interface{}{"op": "prefix", "lint": n})
			}
		}
		// the abstract state space: reachable status set per lint; invariant = prefix rule
		names := make([]string, 0, len(model.Reach))
		for n := range model.Reach {
			names = append(names, n)
		}
		sort.Strings(names)
		for _, n := range names {
			set := model.Reach[n]
			rep.Inc("transitions")
			var l []string
			for s := range set {
				l = append(l, s)
			}
			sort.Strings(l)
			rep.SetAdd("model_status_sets", strings.Join(l, ","))
			forb, ok := offPrefix(n)
			if !ok {
				continue
			}
			for _, f := range forb {
				if set[f] {
					rep.Violate("C06|"+n+"|"+labelOf(f), fmt.Sprintf("%s can return %s on some path of its code (source model: status constants reachable from its Execute: %v)", n, labelOf(f), l),
						map[string]interface{}{"op": "model", "lint": n, "status": labelOf(f), "reachable": l})
				}
			}
			if len(l) == 0 {
				rep.Hole("status model found no status constant reachable from %s", n)
			}
		}
		rep.Sample(3, map[string]interface{}{"model_lints": len(names), "example": names[0], "reach": keysOfBool(model.Reach[names[0]])})
	}
	// conformance + witness search on Engine X
	all := seeds.Load()
	nth := 8
	if !ctx.Quick() {
		nth = 1
	}
	sel := pickSeeds(all, argInt(ctx, "nth", nth))
	g := lint.GlobalRegistry()
	xstate.Explore(ctx, rep, xstate.Options{Seeds: sel, Depth: 1}, func(st *xstate.State) {
		rs, p := zl.Lint(st.Obj, g)
		if p != nil || rs == nil {
			return
		}
		rep.Inc("validated")
		for n, r := range rs.Results {
			if r == nil {
				continue
			}
			cn := statusConstName[r.Status]
			rep.SetAdd("observed", n+"|"+cn)
			forb, _ := offPrefix(n)
			for _, f := range forb {
				if cn == f {
					rp := st.Replay()
					rp["lint"], rp["status"] = n, r.Status.String()
					rep.Violate("C06|"+n+"|"+r.Status.String(), fmt.Sprintf("%s returned %s [seed %s path %s]", n, r.Status, st.Seed.Name, strings.Join(st.Path, ",")), rp)
				}
			}
		}
	})
	// model soundness: every observed status must be inside the model's set
	if model != nil {
		for m := range rep.Sets["observed"] {
			i := strings.LastIndexByte(m, '|')
			n, cn := m[:i], m[i+1:]
			if set, ok := model.Reach[n]; ok && !set[cn] && cn != "NA" && cn != "NE" && !(cn == "Fatal") {
				rep.Note("model under-approximates %s: observed %s, model %v (the dynamic pass still judges it)", n, cn, keysOfBool(set))
				rep.Inc("model_misses")
			}
		}
	}
}

func keysOfBool(m map[string]bool) []string {
	var l []string
	for k := range m {
		l = append(l, k)
	}
	sort.Strings(l)
	return l
}

func replayC06(rp map[string]interface{}) (string, error) {
	if op, _ := rp["op"].(string); op != "" {
		return "", fmt.Errorf("op replay %s is re-run by the check itself", op)
	}
	st, err := stateFromReplay(rp)
	if err != nil {
		return "", err
	}
	rs, p := zl.Lint(st.Obj, lint.GlobalRegistry())
	if p != nil || rs == nil {
		return "", nil
	}
	n, _ := rp["lint"].(string)
	want, _ := rp["status"].(string)
	if r := rs.Results[n]; r != nil && r.Status.String() == want {
		return fmt.Sprintf("%s returned %s", n, want), nil
	}
	return "", nil
}
