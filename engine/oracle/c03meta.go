package oracle

// C03, "any lint metadata": the window is read from the lint struct a caller holds — and callers may hold their own.
// The four public lint struct types (the deprecated lint.Lint, CertificateLint, RevocationListLint, OcspResponseLint)
// are driven through their exported Execute as small state machines. State = (the struct, its current window);
// operations, all histories of depth ≤ 3 (quick) / 4 (thorough):
//
//	run@t     Execute on an always-applicable object dated t ∈ boundary instants of all windows (±1 s, several zones)
//	set w     the struct's EffectiveDate / IneffectiveDate are overwritten in place with window w
//	copy      the struct is copied by value and the history continues on the copy (the original is run once more at the end)
//
// Oracle after every run: NE ⇔ the date is outside the window the struct carries NOW (half-open, exact to the instant);
// otherwise the rule body's verdict. A conversion, memo or cache that remembers an earlier window shows up here.

import (
	"fmt"
	"time"

	"github.com/zmap/zcrypto/x509"
	"github.com/zmap/zlint/v3/lint"
	"golang.org/x/crypto/ocsp"

	"verif/core"
	"verif/seeds"
	"verif/zl"
)

type metaLint interface {
	run(o *zl.Obj) *lint.LintResult
	setWindow(eff, ineff time.Time)
	window() (time.Time, time.Time)
	clone() metaLint
	kind() seeds.Kind
	desc() string
	setSource(s lint.LintSource)
	source() lint.LintSource
	setBody(warn bool) // swap the constructor: the rule body returns warn instead of error
}

type mlOld struct{ l *lint.Lint }

func (m mlOld) run(o *zl.Obj) *lint.LintResult { return m.l.Execute(o.Cert, lint.NewEmptyConfig()) }
func (m mlOld) setWindow(e, i time.Time)       { m.l.EffectiveDate, m.l.IneffectiveDate = e, i }
func (m mlOld) window() (time.Time, time.Time) { return m.l.EffectiveDate, m.l.IneffectiveDate }
func (m mlOld) clone() metaLint                { c := *m.l; return mlOld{&c} }
func (m mlOld) kind() seeds.Kind               { return seeds.Cert }
func (m mlOld) desc() string                   { return "lint.Lint (deprecated)" }

type mlCert struct{ l *lint.CertificateLint }

func (m mlCert) run(o *zl.Obj) *lint.LintResult { return m.l.Execute(o.Cert, lint.NewEmptyConfig()) }
func (m mlCert) setWindow(e, i time.Time)       { m.l.EffectiveDate, m.l.IneffectiveDate = e, i }
func (m mlCert) window() (time.Time, time.Time) { return m.l.EffectiveDate, m.l.IneffectiveDate }
func (m mlCert) clone() metaLint                { c := *m.l; return mlCert{&c} }
func (m mlCert) kind() seeds.Kind               { return seeds.Cert }
func (m mlCert) desc() string                   { return "lint.CertificateLint" }

type mlCRL struct{ l *lint.RevocationListLint }

func (m mlCRL) run(o *zl.Obj) *lint.LintResult { return m.l.Execute(o.CRL, lint.NewEmptyConfig()) }
func (m mlCRL) setWindow(e, i time.Time)       { m.l.EffectiveDate, m.l.IneffectiveDate = e, i }
func (m mlCRL) window() (time.Time, time.Time) { return m.l.EffectiveDate, m.l.IneffectiveDate }
func (m mlCRL) clone() metaLint                { c := *m.l; return mlCRL{&c} }
func (m mlCRL) kind() seeds.Kind               { return seeds.CRL }
func (m mlCRL) desc() string                   { return "lint.RevocationListLint" }

type mlOCSP struct{ l *lint.OcspResponseLint }

func (m mlOCSP) run(o *zl.Obj) *lint.LintResult { return m.l.Execute(o.OCSP, lint.NewEmptyConfig()) }
func (m mlOCSP) setWindow(e, i time.Time)       { m.l.EffectiveDate, m.l.IneffectiveDate = e, i }
func (m mlOCSP) window() (time.Time, time.Time) { return m.l.EffectiveDate, m.l.IneffectiveDate }
func (m mlOCSP) clone() metaLint                { c := *m.l; return mlOCSP{&c} }
func (m mlOCSP) kind() seeds.Kind               { return seeds.OCSP }
func (m mlOCSP) desc() string                   { return "lint.OcspResponseLint" }

type winOld struct{}

func (winOld) CheckApplies(*x509.Certificate) bool { return true }
func (winOld) Execute(*x509.Certificate) *lint.LintResult {
	return &lint.LintResult{Status: lint.Error, Details: "ran"}
}

var _ = ocsp.Good

func (m mlOld) setSource(x lint.LintSource) { m.l.Source = x }
func (m mlOld) source() lint.LintSource     { return m.l.Source }
func (m mlOld) setBody(w bool) {
	if w {
		m.l.Lint = func() lint.LintInterface { return winOldWarn{} }
	} else {
		m.l.Lint = func() lint.LintInterface { return winOld{} }
	}
}
func (m mlCert) setSource(x lint.LintSource) { m.l.Source = x }
func (m mlCert) source() lint.LintSource     { return m.l.Source }
func (m mlCert) setBody(w bool) {
	if w {
		m.l.Lint = func() lint.CertificateLintInterface { return winOldWarn{} }
	} else {
		m.l.Lint = func() lint.CertificateLintInterface { return winCert{} }
	}
}
func (m mlCRL) setSource(x lint.LintSource)  { m.l.Source = x }
func (m mlCRL) source() lint.LintSource      { return m.l.Source }
func (m mlCRL) setBody(w bool)               {}
func (m mlOCSP) setSource(x lint.LintSource) { m.l.Source = x }
func (m mlOCSP) source() lint.LintSource     { return m.l.Source }
func (m mlOCSP) setBody(w bool)              {}

type winOldWarn struct{}

func (winOldWarn) CheckApplies(*x509.Certificate) bool { return true }
func (winOldWarn) Execute(*x509.Certificate) *lint.LintResult {
	return &lint.LintResult{Status: lint.Warn, Details: "ran (second body)"}
}

func c03MetaHistories(ctx *core.Ctx, rep *core.Report, sel []seeds.Seed) {
	metaHistories(ctx, rep, sel, "C03", false)
}

// metaHistories with withSource (C04): the struct's Source and constructor are edited in place as well — the scope gate and
// the rule body must be those the struct carries NOW (out of scope ⇒ NA, otherwise the current body's verdict).
func metaHistories(ctx *core.Ctx, rep *core.Report, sel []seeds.Seed, prop string, withSource bool) {
	e1 := time.Date(2020, 3, 1, 12, 0, 0, 0, time.UTC)
	e2 := time.Date(2021, 3, 1, 12, 0, 0, 0, time.UTC)
	i1 := time.Date(2022, 9, 1, 0, 0, 0, 0, time.FixedZone("+02", 7200))
	i2 := time.Date(2024, 9, 1, 0, 0, 0, 0, time.UTC)
	windows := [][2]time.Time{{}, {e1, time.Time{}}, {time.Time{}, i1}, {e1, i1}, {e2, i1}, {e1, i2}}
	var instants []time.Time
	for _, b := range []time.Time{e1, e2, i1, i2} {
		instants = append(instants, b.Add(-time.Second), b, b.In(time.FixedZone("-12", -12*3600)))
	}
	instants = append(instants, date(2021, 6, 1))
	objs := map[seeds.Kind]*zl.Obj{}
	for i := range sel {
		if objs[sel[i].Kind] == nil {
			if o, err := zl.Parse(sel[i].Kind, sel[i].DER); err == nil {
				objs[sel[i].Kind] = o
			}
		}
	}
	fresh := []func() metaLint{
		func() metaLint {
			return mlOld{&lint.Lint{Name: "e_zz_verifmeta_old", Description: "mock", Source: lint.Community, Lint: func() lint.LintInterface { return winOld{} }}}
		},
		func() metaLint {
			return mlCert{&lint.CertificateLint{LintMetadata: lint.LintMetadata{Name: "e_zz_verifmeta_cert", Description: "mock", Source: lint.Community}, Lint: func() lint.CertificateLintInterface { return winCert{} }}}
		},
		func() metaLint {
			return mlCRL{&lint.RevocationListLint{LintMetadata: lint.LintMetadata{Name: "e_zz_verifmeta_crl", Description: "mock", Source: lint.Community}, Lint: func() lint.RevocationListLintInterface { return winCRL{} }}}
		},
		func() metaLint {
			return mlOCSP{&lint.OcspResponseLint{LintMetadata: lint.LintMetadata{Name: "e_zz_verifmeta_ocsp", Description: "mock", Source: lint.Community}, Lint: func() lint.OcspResponseLintInterface { return winOCSP{} }}}
		},
	}
	// operation alphabet: set w (6), copy (1), run@t (13)
	type op struct {
		kind string
		w    int
		t    time.Time
	}
	var ops []op
	for w := range windows {
		ops = append(ops, op{kind: "set", w: w})
	}
	ops = append(ops, op{kind: "copy"})
	if withSource {
		// fewer instants, but sources and bodies
		instants = []time.Time{e1.Add(-time.Second), e1, date(2021, 6, 1), i1}
		windows = windows[:4]
		ops = ops[:0]
		for w := range windows {
			ops = append(ops, op{kind: "set", w: w})
		}
		ops = append(ops, op{kind: "copy"})
		for si := range metaSources {
			ops = append(ops, op{kind: "src", w: si})
		}
		ops = append(ops, op{kind: "body", w: 0}, op{kind: "body", w: 1})
	}
	for _, t := range instants {
		ops = append(ops, op{kind: "run", t: t})
	}
	depth := 3
	if !ctx.Quick() {
		depth = 4
	}
	total := 1
	for i := 0; i < depth; i++ {
		total *= len(ops)
	}
	idx := uint64(0)
	for fi, mk := range fresh {
		for n := 0; n < total; n++ {
			idx++
			if !ctx.Mine(idx) {
				continue
			}
			if ctx.Expired() {
				rep.Cap(prop+" metadata histories: deadline at history %d of %d (struct type %d)", n, total, fi)
				return
			}
			seq := make([]op, depth)
			k := n
			for i := depth - 1; i >= 0; i-- {
				seq[i] = ops[k%len(ops)]
				k /= len(ops)
			}
			cur := mk()
			obj := objs[cur.kind()]
			if obj == nil {
				break
			}
			bodyWarn := map[metaLint]bool{}
			var held []metaLint // earlier copies: run once more at the end
			var hist []string
			check := func(m metaLint, t time.Time, when string) {
				setDate(obj, t)
				var r *lint.LintResult
				var pan interface{}
				func() {
					defer func() { pan = recover() }()
					r = m.run(obj)
				}()
				rep.Inc("validated")
				rep.Inc("metadata_history_runs")
				if pan != nil || r == nil {
					return // C01/C02
				}
				eff, ineff := m.window()
				want := lint.NE
				if refInWindow(eff, ineff, t) {
					want = lint.Error
					if bodyWarn[m] {
						want = lint.Warn
					}
				}
				if withSource && m.kind() == seeds.Cert && !inScope(m.source(), obj.Cert) {
					want = lint.NA
				}
				if r.Status != want {
					rep.Violate(prop+"|metadata_history|"+m.kind().String()+"|"+want.String()+"~"+r.Status.String(),
						fmt.Sprintf("%s carrying source %s and the window [%s, %s) run on an always-applicable object dated %s %s: got %s, what the struct carries now says %s [history: %v]",
							m.desc(), m.source(), fmtDate(eff), fmtDate(ineff), t.Format(time.RFC3339), when, r.Status, want, hist),
						map[string]interface{}{"op": "metadata_history", "struct": m.desc(), "history": hist})
				}
			}
			for _, o := range seq {
				switch o.kind {
				case "set":
					cur.setWindow(windows[o.w][0], windows[o.w][1])
					hist = append(hist, fmt.Sprintf("set window [%s, %s)", fmtDate(windows[o.w][0]), fmtDate(windows[o.w][1])))
				case "copy":
					held = append(held, cur)
					w := bodyWarn[cur]
					cur = cur.clone()
					bodyWarn[cur] = w
					hist = append(hist, "copy the struct, continue on the copy")
				case "src":
					cur.setSource(metaSources[o.w])
					hist = append(hist, "set source "+string(metaSources[o.w]))
				case "body":
					if cur.kind() == seeds.Cert {
						cur.setBody(o.w == 1)
						bodyWarn[cur] = o.w == 1
						hist = append(hist, fmt.Sprintf("swap the constructor (body returns warn: %v)", o.w == 1))
					}
				case "run":
					hist = append(hist, "run @"+o.t.Format(time.RFC3339))
					check(cur, o.t, "")
				}
				rep.Inc("transitions")
			}
			// every struct still held is run once more at two instants that separate all windows
			for _, m := range append(held, cur) {
				check(m, e1, "(end of history)")
				check(m, i1, "(end of history)")
			}
			rep.Inc("states")
			rep.Inc("metadata_histories")
		}
	}
}

var metaSources = []lint.LintSource{lint.Community, lint.CABFBaselineRequirements, lint.CABFSMIMEBaselineRequirements, lint.CABFCSBaselineRequirements}
