package oracle

import (
	"bytes"
	"encoding/hex"
	"fmt"
	"sort"
	"strings"

	"github.com/zmap/zlint/v3/lint"

	"verif/certgen"
	"verif/core"
	"verif/der"
	"verif/seeds"
	"verif/zl"
)

func init() {
	core.Checks["C17"] = checkC17
	core.Replayers["C17"] = replayC17
}

var oidSANContent = []byte{0x55, 0x1d, 0x11}

// extList returns the SEQUENCE OF Extension of a certificate tree.
func extList(root *der.Node) *der.Node {
	if root == nil || len(root.Children) < 1 {
		return nil
	}
	tbs := root.Children[0]
	for _, c := range tbs.Children {
		if c.Class == 2 && c.Tag == 3 && c.Constructed && len(c.Children) == 1 {
			return c.Children[0]
		}
	}
	return nil
}

// sanNames returns the GeneralNames SEQUENCE inside the SAN extension.
func sanNames(root *der.Node) *der.Node {
	el := extList(root)
	if el == nil {
		return nil
	}
	for _, e := range el.Children {
		if len(e.Children) >= 2 && e.Children[0].IsOID(oidSANContent) {
			v := e.Children[len(e.Children)-1]
			if v.Wrapped && len(v.Children) == 1 && v.Children[0].Constructed {
				return v.Children[0]
			}
		}
	}
	return nil
}

// permutations of 0..n-1 (n ≤ 4: all; else adjacent transpositions, reversal, rotations)
func permSet(n int) [][]int {
	id := make([]int, n)
	for i := range id {
		id[i] = i
	}
	var out [][]int
	if n <= 4 {
		var rec func(p []int, k int)
		rec = func(p []int, k int) {
			if k == n {
				out = append(out, append([]int(nil), p...))
				return
			}
			for i := k; i < n; i++ {
				p[k], p[i] = p[i], p[k]
				rec(p, k+1)
				p[k], p[i] = p[i], p[k]
			}
		}
		rec(append([]int(nil), id...), 0)
		return out
	}
	out = append(out, id)
	for i := 0; i+1 < n; i++ {
		p := append([]int(nil), id...)
		p[i], p[i+1] = p[i+1], p[i]
		out = append(out, p)
	}
	rev := make([]int, n)
	for i := range rev {
		rev[i] = n - 1 - i
	}
	out = append(out, rev)
	for r := 1; r < n; r++ {
		p := make([]int, n)
		for i := range p {
			p[i] = (i + r) % n
		}
		out = append(out, p)
	}
	return out
}

func statusVector(o *zl.Obj, reg lint.Registry) map[string]lint.LintStatus {
	rs, p := zl.Lint(o, reg)
	if p != nil || rs == nil {
		return nil
	}
	m := map[string]lint.LintStatus{}
	for n, r := range rs.Results {
		if r != nil {
			m[n] = r.Status
		}
	}
	return m
}

// c17Class lints every permutation of the children of `list` and reports the
// lints whose status is not constant over the class.
func c17Class(root, list *der.Node, what string, rep *core.Report) (out [][3]string) {
	kids := list.Children
	n := len(kids)
	if n < 2 {
		return nil
	}
	g := lint.GlobalRegistry()
	var ref map[string]lint.LintStatus
	var refDER []byte
	for _, p := range permSet(n) {
		nk := make([]*der.Node, n)
		for i, j := range p {
			nk[i] = kids[j]
		}
		list.Children = nk
		b := root.Encode()
		list.Children = kids
		o, err := zl.Parse(seeds.Cert, b)
		if err != nil {
			if rep != nil {
				rep.Inc("parser_rejected")
			}
			continue
		}
		if o.Cert.SelfSigned {
			continue
		}
		v := statusVector(o, g)
		if v == nil {
			continue
		}
		if rep != nil {
			rep.Inc("states")
			rep.Inc("transitions")
			rep.Inc("validated")
		}
		if ref == nil {
			ref, refDER = v, b
			continue
		}
		for name, s := range v {
			if r, ok := ref[name]; ok && r != s {
				a, c := r.String(), s.String()
				if a > c {
					a, c = c, a
				}
				out = append(out, [3]string{"C17|" + name + "|" + what + "|" + a + "~" + c,
					fmt.Sprintf("%s: %s for one order of the %s, %s for another (permutation %v)", name, r, what, s, p),
					hex.EncodeToString(refDER) + "|" + hex.EncodeToString(b)})
			}
		}
	}
	return out
}

func hasDuplicateExtension(el *der.Node) bool {
	seen := map[string]bool{}
	for _, e := range el.Children {
		if len(e.Children) == 0 {
			continue
		}
		k := string(e.Children[0].Content)
		if seen[k] {
			return true
		}
		seen[k] = true
	}
	return false
}

// sanAtoms: the GeneralName alphabet of DESIGN §3 C17.
func sanAtoms() []struct {
	name string
	gn   *der.Node
} {
	long63 := strings.Repeat("a", 63)
	long64 := strings.Repeat("b", 64)
	tooLong := strings.Join([]string{long63, long63, long63, long63, "example.com"}, ".")
	mk := func(n string, g *der.Node) struct {
		name string
		gn   *der.Node
	} {
		return struct {
			name string
			gn   *der.Node
		}{n, g}
	}
	return []struct {
		name string
		gn   *der.Node
	}{
		mk("dns:good", certgen.GNDNS("www.example.com")),
		// names that relate to one another and to the templates' common names (CN = example.com / www.example.com /
		// a@example.com): exact copies, case variants, a trailing dot, a covering wildcard — rules that look for "the"
		// matching entry must not care which of several candidates comes first
		mk("dns:good-CASE", certgen.GNDNS("WWW.Example.com")),
		mk("dns:cn", certgen.GNDNS("example.com")),
		mk("dns:cn-CASE", certgen.GNDNS("EXAMPLE.com")),
		mk("dns:good-dot", certgen.GNDNS("www.example.com.")),
		mk("dns:wildcard-covering", certgen.GNDNS("*.example.com")),
		mk("dns:wildcard", certgen.GNDNS("*.example.org")),
		mk("dns:bare*", certgen.GNDNS("*")),
		mk("dns:_sld", certgen.GNDNS("www.ex_ample.com")),
		mk("dns:_trd", certgen.GNDNS("w_w.example.com")),
		mk("dns:-sld", certgen.GNDNS("www.-example.com")),
		mk("dns:emptylabel", certgen.GNDNS("www..example.com")),
		mk("dns:label64", certgen.GNDNS(long64+".example.com")),
		mk("dns:>253", certgen.GNDNS(tooLong)),
		mk("dns:baretld", certgen.GNDNS("com")),
		mk("dns:unparseable", certgen.GNDNS("%%%.example.com")),
		mk("dns:space", certgen.GNDNS("www example.com")),
		mk("dns:nul", certgen.GNDNS("www\x00.example.com")),
		mk("dns:leadingdot", certgen.GNDNS(".example.com")),
		mk("dns:onion3", certgen.GNDNS("pg6mmjiyjmcrsslvykfwnntlaru7p5svn6y2ymmju6nubxndf4pscryd.onion")),
		mk("dns:nonIA5", certgen.GNDNS("w\xc3\xa4w.example.com")),
		mk("dns:invalidtld", certgen.GNDNS("www.example.invalidtldxyz")),
		mk("dns:wild-pubsuffix", certgen.GNDNS("*.co.uk")),
		mk("ip:public", certgen.GNIP([]byte{8, 8, 8, 8})),
		mk("ip:reserved", certgen.GNIP([]byte{10, 0, 0, 1})),
		mk("ip:v6", certgen.GNIP([]byte{0x20, 0x01, 0x48, 0x60, 0x48, 0x60, 0, 0, 0, 0, 0, 0, 0, 0, 0x88, 0x88})),
		mk("uri:good", certgen.GNURI("https://www.example.com/path")),
		mk("uri:relative", certgen.GNURI("/just/a/path")),
		mk("uri:opaque", certgen.GNURI("mailto:a@example.com")),
		mk("uri:nohost", certgen.GNURI("https:///path")),
		mk("email:good", certgen.GNEmail("a@example.com")),
		mk("email:CASE", certgen.GNEmail("A@Example.com")),
		mk("email:bad", certgen.GNEmail("not an address")),
		mk("dirname", certgen.GNDirName(certgen.Name(certgen.ATV{OID: certgen.OIDCN, Tag: 12, Val: "dir"}))),
		mk("othername", certgen.GNOther([]int{1, 3, 6, 1, 4, 1, 311, 20, 2, 3}, der.Str(12, "upn@example.com"))),
		mk("rid", certgen.GNRID(1, 2, 3, 4)),
		// id-on-SmtpUTF8Mailbox otherNames: the mailbox of the S/MIME template's subject, another mailbox, and values that
		// do not decode as a UTF8String mailbox (wrong string type, empty, not a mailbox, no value at all)
		mk("smtputf8:cn", certgen.GNOther([]int{1, 3, 6, 1, 5, 5, 7, 8, 9}, der.Str(12, "a@example.com"))),
		mk("smtputf8:other", certgen.GNOther([]int{1, 3, 6, 1, 5, 5, 7, 8, 9}, der.Str(12, "b@example.org"))),
		mk("smtputf8:ia5", certgen.GNOther([]int{1, 3, 6, 1, 5, 5, 7, 8, 9}, der.Str(22, "a@example.com"))),
		mk("smtputf8:empty", certgen.GNOther([]int{1, 3, 6, 1, 5, 5, 7, 8, 9}, der.Str(12, ""))),
		mk("smtputf8:notmailbox", certgen.GNOther([]int{1, 3, 6, 1, 5, 5, 7, 8, 9}, der.Str(12, "not a mailbox"))),
		mk("smtputf8:novalue", certgen.GNOther([]int{1, 3, 6, 1, 5, 5, 7, 8, 9}, nil)),
		mk("smtputf8:nonutf8", certgen.GNOther([]int{1, 3, 6, 1, 5, 5, 7, 8, 9}, der.Str(12, "a\xff@example.com"))),
	}
}

func c17Templates() map[string]func(san *der.Node) []byte {
	return map[string]func(san *der.Node) []byte{
		"tls_leaf": func(san *der.Node) []byte {
			s := tlsLeafSpec(date(2024, 3, 1), date(2024, 9, 1))
			s.Exts[len(s.Exts)-1] = san
			return s.Build()
		},
		"ev_leaf": func(san *der.Node) []byte {
			s := tlsLeafSpec(date(2024, 3, 1), date(2024, 9, 1))
			s.Subject = certgen.Name(certgen.ATV{OID: certgen.OIDC, Tag: 19, Val: "US"}, certgen.ATV{OID: certgen.OIDO, Tag: 12, Val: "Example Inc"},
				certgen.ATV{OID: []int{2, 5, 4, 15}, Tag: 12, Val: "Private Organization"}, certgen.ATV{OID: certgen.OIDSerial, Tag: 19, Val: "12345"},
				certgen.ATV{OID: []int{1, 3, 6, 1, 4, 1, 311, 60, 2, 1, 3}, Tag: 19, Val: "US"}, certgen.ATV{OID: certgen.OIDCN, Tag: 12, Val: "www.example.com"})
			s.Exts[3] = certgen.Policies(certgen.PolEV)
			s.Exts[len(s.Exts)-1] = san
			return s.Build()
		},
		"smime_leaf": func(san *der.Node) []byte {
			s := certgen.Spec{
				Subject:   certgen.Name(certgen.ATV{OID: certgen.OIDCN, Tag: 12, Val: "a@example.com"}),
				NotBefore: date(2024, 3, 1), NotAfter: date(2025, 3, 1),
				Exts: []*der.Node{certgen.KeyUsage(0), certgen.EKU(certgen.EKUEmail), certgen.BasicConstraints(false, true),
					certgen.Policies([]int{2, 23, 140, 1, 5, 1, 3}), san},
			}
			return s.Build()
		},
	}
}

func checkC17(ctx *core.Ctx, rep *core.Report) {
	idx := uint64(0)
	report := func(v [][3]string, where string) {
		for _, x := range v {
			parts := strings.SplitN(x[2], "|", 2)
			rep.Violate(x[0], x[1]+" ["+where+"]", map[string]interface{}{"kind": "cert", "der_hex": parts[0], "other_der_hex": parts[1], "where": where})
		}
	}
	// ---- SAN product space on own templates ------------------------------------------
	atoms := sanAtoms()
	tmpls := c17Templates()
	var tnames []string
	for n := range tmpls {
		tnames = append(tnames, n)
	}
	sort.Strings(tnames)
	maxSize := 3
	for _, tn := range tnames {
		build := tmpls[tn]
		var rec func(start int, cur []int)
		rec = func(start int, cur []int) {
			if len(cur) >= 2 {
				idx++
				if ctx.Mine(idx) {
					var gns []*der.Node
					var names []string
					for _, i := range cur {
						gns = append(gns, atoms[i].gn.Clone())
						names = append(names, atoms[i].name)
					}
					// skip multisets of identical atoms only (permutation class is trivial)
					b := build(certgen.SAN(false, gns...))
					root, err := der.Parse(b)
					if err == nil {
						if sn := sanNames(root); sn != nil {
							rep.Inc("san_multisets")
							report(c17Class(root, sn, "SAN entries", rep), fmt.Sprintf("template %s SAN %v", tn, names))
							rep.Sample(3, map[string]interface{}{"template": tn, "san": names})
						}
					}
				}
			}
			if len(cur) == maxSize {
				return
			}
			for i := start; i < len(atoms); i++ {
				if ctx.Quick() && len(cur) == 2 && tn != "tls_leaf" && i%3 != 0 {
					continue // quick: size-3 multisets on the other templates thinned out
				}
				rec(i, append(cur, i))
			}
		}
		rec(0, nil)
	}
	// ---- harvested atoms: every kind of name the repository's own test certificates carry ------
	// The hand-made alphabet above knows the name shapes its author thought of. The corpus knows the ones the lints
	// were written for: every distinct GeneralName of every corpus SAN is tried alone on the TLS template, and kept if it
	// reaches a (lint, status) pair no atom before it reached (greedy cover, deterministic order). Every pair
	// {harvested, any atom} is then linted in both orders.
	all := seeds.Load()
	harvested := c17Harvest(all, tmpls["tls_leaf"], atoms, rep)
	// … and those that matter only on the S/MIME or the EV template (the lints of those documents answer NA on the TLS one)
	for _, tn := range []string{"smime_leaf", "ev_leaf"} {
		have := map[string]bool{}
		for _, h := range harvested {
			have[h.name] = true
		}
		for _, h := range c17Harvest(all, tmpls[tn], append(append([]struct {
			name string
			gn   *der.Node
		}{}, atoms...), harvested...), nil) {
			if !have[h.name] {
				harvested = append(harvested, h)
			}
		}
	}
	rep.Add("g_harvested_san_atoms", int64(len(harvested)))
	allAtoms := append(append([]struct {
		name string
		gn   *der.Node
	}{}, atoms...), harvested...)
	for hi, h := range harvested {
		for ai, a := range allAtoms {
			if ai >= len(atoms) && ai-len(atoms) < hi {
				continue // unordered pair of two harvested atoms: once
			}
			idx++
			if !ctx.Mine(idx) {
				continue
			}
			for _, tn := range tnames {
				if tn == "ev_leaf" && (ctx.Quick() || ai < len(atoms)) {
					continue
				}
				b := tmpls[tn](certgen.SAN(false, h.gn.Clone(), a.gn.Clone()))
				root, err := der.Parse(b)
				if err != nil {
					continue
				}
				if sn := sanNames(root); sn != nil {
					rep.Inc("san_multisets")
					rep.Inc("san_multisets_with_harvested_atom")
					report(c17Class(root, sn, "SAN entries", rep), fmt.Sprintf("template %s SAN [%s %s]", tn, h.name, a.name))
				}
			}
		}
	}
	// ---- pairs of extensions harvested from the corpus, criticality product, both orders ------
	// Rules that look at two extensions together are written against certificates that carry one of them (that is what the
	// corpus holds). Every distinct extension of the corpus that the template lacks is tried alone on the template and kept if
	// it reaches a new (lint, status) pair; every pair of kept extensions is then added with each of the four criticality
	// combinations, in both orders: the status vector must be the same.
	{
		extTmpls := map[string]func(extra ...*der.Node) []byte{
			"tls_leaf": func(extra ...*der.Node) []byte {
				sp := tlsLeafSpec(date(2024, 3, 1), date(2024, 9, 1))
				sp.Exts = append(sp.Exts, extra...)
				return sp.Build()
			},
			"smime_multipurpose_leaf": func(extra ...*der.Node) []byte {
				sp := certgen.Spec{
					Subject:   certgen.Name(certgen.ATV{OID: certgen.OIDCN, Tag: 12, Val: "a@example.com"}),
					NotBefore: date(2024, 3, 1), NotAfter: date(2025, 3, 1),
					Exts: []*der.Node{certgen.KeyUsage(0), certgen.EKU(certgen.EKUEmail), certgen.BasicConstraints(false, true),
						certgen.Policies([]int{2, 23, 140, 1, 5, 1, 2}), certgen.SAN(false, certgen.GNEmail("a@example.com"))},
				}
				sp.Exts = append(sp.Exts, extra...)
				return sp.Build()
			},
		}
		var etn []string
		for n := range extTmpls {
			etn = append(etn, n)
		}
		sort.Strings(etn)
		setCrit := func(ext *der.Node, crit bool) *der.Node {
			c := ext.Clone()
			var kids []*der.Node
			for _, k := range c.Children {
				if k.Class == 0 && k.Tag == 1 && !k.Constructed {
					continue
				}
				kids = append(kids, k)
			}
			if crit && len(kids) == 2 {
				kids = []*der.Node{kids[0], der.Str(1, "\xff"), kids[1]}
			}
			c.Children = kids
			return c
		}
		for _, tn := range etn {
			build := extTmpls[tn]
			kept := c17HarvestExts(all, build)
			rep.Add("g_harvested_extensions_"+tn, int64(len(kept)))
			for i := range kept {
				for j := i + 1; j < len(kept); j++ {
					if kept[i].Children[0].IsOID(kept[j].Children[0].Content) || string(kept[i].Children[0].Content) == string(kept[j].Children[0].Content) {
						continue // the same extension twice: the property exempts duplicated extensions
					}
					idx++
					if !ctx.Mine(idx) {
						continue
					}
					for crit := 0; crit < 4; crit++ {
						a, b := setCrit(kept[i], crit&1 != 0), setCrit(kept[j], crit&2 != 0)
						var vec [2]map[string]lint.LintStatus
						var ders [2][]byte
						ok := true
						for o, pair := range [][2]*der.Node{{a, b}, {b, a}} {
							ders[o] = build(pair[0].Clone(), pair[1].Clone())
							obj, err := zl.Parse(seeds.Cert, ders[o])
							if err != nil {
								ok = false
								break
							}
							vec[o] = statusVector(obj, lint.GlobalRegistry())
							rep.Inc("states")
							rep.Inc("transitions")
							rep.Inc("validated")
						}
						if !ok || vec[0] == nil || vec[1] == nil {
							continue
						}
						rep.Inc("extension_pair_classes")
						for name, st := range vec[0] {
							if st2, ok := vec[1][name]; ok && st2 != st {
								x, y := st.String(), st2.String()
								if x > y {
									x, y = y, x
								}
								rep.Violate("C17|"+name+"|extensions|"+x+"~"+y, fmt.Sprintf("%s: %s when extension %x comes before extension %x, %s the other way round (criticality %v/%v) [template %s]",
									name, st, kept[i].Children[0].Content, kept[j].Children[0].Content, st2, crit&1 != 0, crit&2 != 0, tn),
									map[string]interface{}{"kind": "cert", "der_hex": hex.EncodeToString(ders[0]), "other_der_hex": hex.EncodeToString(ders[1]), "where": "harvested extension pair on " + tn})
							}
						}
					}
				}
			}
		}
	}
	// ---- corpus seeds: SAN order and extension order -----------------------------------
	coverSet := map[string]bool{}
	for _, c := range pickSeeds(all, 1<<30) {
		coverSet[c.Name] = true
	}
	for i := range all {
		sd := &all[i]
		if sd.Kind != seeds.Cert {
			continue
		}
		idx++
		if !ctx.Mine(idx) {
			continue
		}
		if ctx.Expired() {
			rep.Cap("deadline at seed %d", i)
			break
		}
		o, err := zl.Parse(seeds.Cert, sd.DER)
		if err != nil || o.Cert.SelfSigned {
			rep.Inc("seeds_skipped_self_signed")
			continue
		}
		root, err := der.Parse(sd.DER)
		if err != nil {
			continue
		}
		if sn := sanNames(root); sn != nil && len(sn.Children) >= 2 {
			rep.Inc("seed_san_classes")
			report(c17Class(root, sn, "SAN entries", rep), "seed "+sd.Name)
		}
		if el := extList(root); el != nil && len(el.Children) >= 2 && !hasDuplicateExtension(el) {
			rep.Inc("seed_extension_classes")
			report(c17Class(root, el, "extensions", rep), "seed "+sd.Name)
			// the same class once more for every extension with its criticality flipped (on the (lint, status) cover of the
			// corpus): rules that compare the criticality of several extensions must not care which of them comes first
			if coverSet[sd.Name] && len(el.Children) <= 12 {
				for ei, ext := range el.Children {
					saved := ext.Children
					switch {
					case len(saved) == 3 && saved[1].Class == 0 && saved[1].Tag == 1:
						ext.Children = []*der.Node{saved[0], saved[2]}
					case len(saved) == 2:
						ext.Children = []*der.Node{saved[0], der.Str(1, "\xff"), saved[1]}
					default:
						continue
					}
					rep.Inc("seed_extension_classes_with_flipped_criticality")
					report(c17Class(root, el, "extensions", rep), fmt.Sprintf("seed %s with the criticality of extension %d flipped", sd.Name, ei))
					ext.Children = saved
				}
			}
		}
	}
}

func replayC17(rp map[string]interface{}) (string, error) {
	a, _ := rp["der_hex"].(string)
	b, _ := rp["other_der_hex"].(string)
	da, err1 := hex.DecodeString(a)
	db, err2 := hex.DecodeString(b)
	if err1 != nil || err2 != nil || len(da) == 0 || len(db) == 0 {
		return "", fmt.Errorf("artefact lacks the two encodings")
	}
	oa, err := zl.Parse(seeds.Cert, da)
	if err != nil {
		return "", err
	}
	ob, err := zl.Parse(seeds.Cert, db)
	if err != nil {
		return "", err
	}
	if bytes.Equal(da, db) {
		return "", nil
	}
	va, vb := statusVector(oa, lint.GlobalRegistry()), statusVector(ob, lint.GlobalRegistry())
	for n, s := range va {
		if vb[n] != s {
			return fmt.Sprintf("%s: %s vs %s for two orders of the same elements", n, s, vb[n]), nil
		}
	}
	return "", nil
}

// c17Harvest: the distinct GeneralNames of all corpus SANs, reduced to a greedy (lint, status) cover on the template.
func c17Harvest(all []seeds.Seed, build func(san *der.Node) []byte, hand []struct {
	name string
	gn   *der.Node
}, rep *core.Report) []struct {
	name string
	gn   *der.Node
} {
	g := lint.GlobalRegistry()
	pairsOf := func(gn *der.Node) map[string]bool {
		b := build(certgen.SAN(false, gn.Clone()))
		o, err := zl.Parse(seeds.Cert, b)
		if err != nil {
			return nil
		}
		v := statusVector(o, g)
		if v == nil {
			return nil
		}
		m := map[string]bool{}
		for n, st := range v {
			m[n+"|"+st.String()] = true
		}
		return m
	}
	seen := map[string]bool{}
	for _, a := range hand {
		for k := range pairsOf(a.gn) {
			seen[k] = true
		}
	}
	cand := map[string]*der.Node{}
	for i := range all {
		if all[i].Kind != seeds.Cert {
			continue
		}
		root, err := der.Parse(all[i].DER)
		if err != nil {
			continue
		}
		sn := sanNames(root)
		if sn == nil {
			continue
		}
		for _, c := range sn.Children {
			cp := c.Clone()
			k := hex.EncodeToString(cp.Encode())
			if len(k) <= 600 {
				cand[k] = cp
			}
		}
	}
	keys := make([]string, 0, len(cand))
	for k := range cand {
		keys = append(keys, k)
	}
	sort.Strings(keys)
	var out []struct {
		name string
		gn   *der.Node
	}
	for _, k := range keys {
		p := pairsOf(cand[k])
		fresh := false
		for x := range p {
			if !seen[x] {
				fresh = true
				seen[x] = true
			}
		}
		if fresh {
			gn := cand[k]
			label := fmt.Sprintf("corpus:[%d]%q", gn.Tag, string(gn.Content))
			if gn.Constructed {
				label = "corpus:" + k[:min(40, len(k))]
			}
			out = append(out, struct {
				name string
				gn   *der.Node
			}{label, gn})
		}
		if len(out) >= 80 {
			break
		}
	}
	if rep != nil {
		rep.Add("g_distinct_corpus_general_names", int64(len(keys)))
	}
	return out
}

// c17HarvestExts: the distinct extensions (OID + value, at most three values per OID) of all corpus certificates whose OID the
// template does not carry, reduced to a greedy (lint, status) cover on the template.
func c17HarvestExts(all []seeds.Seed, build func(extra ...*der.Node) []byte) []*der.Node {
	g := lint.GlobalRegistry()
	pairsOf := func(extra ...*der.Node) map[string]bool {
		o, err := zl.Parse(seeds.Cert, build(extra...))
		if err != nil {
			return nil
		}
		v := statusVector(o, g)
		if v == nil {
			return nil
		}
		m := map[string]bool{}
		for n, st := range v {
			m[n+"|"+st.String()] = true
		}
		return m
	}
	seen := pairsOf()
	if seen == nil {
		return nil
	}
	have := map[string]bool{}
	if root, err := der.Parse(build()); err == nil {
		if el := extList(root); el != nil {
			for _, e := range el.Children {
				if len(e.Children) > 0 {
					have[string(e.Children[0].Content)] = true
				}
			}
		}
	}
	cand := map[string]*der.Node{}
	perOID := map[string]int{}
	for i := range all {
		if all[i].Kind != seeds.Cert {
			continue
		}
		root, err := der.Parse(all[i].DER)
		if err != nil {
			continue
		}
		el := extList(root)
		if el == nil {
			continue
		}
		for _, e := range el.Children {
			if len(e.Children) < 2 || !(e.Children[0].Class == 0 && e.Children[0].Tag == 6) {
				continue
			}
			oid := string(e.Children[0].Content)
			if have[oid] {
				continue
			}
			cp := e.Clone()
			k := hex.EncodeToString(cp.Encode())
			if _, dup := cand[k]; dup || len(k) > 1200 || perOID[oid] >= 3 {
				continue
			}
			perOID[oid]++
			cand[k] = cp
		}
	}
	keys := make([]string, 0, len(cand))
	for k := range cand {
		keys = append(keys, k)
	}
	sort.Strings(keys)
	var out []*der.Node
	base := pairsOf()
	keptOID := map[string]bool{}
	for _, k := range keys {
		p := pairsOf(cand[k].Clone())
		fresh := false
		for x := range p {
			if !seen[x] {
				fresh = true
				seen[x] = true
			}
		}
		// one value of every extension type that changes ANY verdict on the template is kept even if another extension
		// reached the same (lint, status) pairs before it: two extensions judged by the same rule are the interesting pair
		oid := string(cand[k].Children[0].Content)
		if !fresh && !keptOID[oid] {
			for x := range p {
				if !base[x] {
					fresh = true
				}
			}
		}
		if fresh {
			keptOID[oid] = true
			out = append(out, cand[k])
		}
		if len(out) >= 48 {
			break
		}
	}
	return out
}
