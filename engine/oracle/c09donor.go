package oracle

// C09, signature values that the process has seen before. A verdict that is computed (or memoised) from the
// signature bits shows only when the *same bits* occur on two different to-be-signed bodies — a constant dummy
// signature during pre-issuance linting, or a value copied from another certificate. Histories of length 3, all of
// them for every recipient × donor × shared value:   lint(donor carrying X) ; lint(recipient as issued) ;
// lint(recipient carrying X)   — the last two must agree. Donors are one seed per scope class (which of the
// sourced rule families judge it at all), so the donor and the recipient differ in exactly what a per-signature
// memo would carry over. X ranges over {zeros of the recipient's length, the recipient's own signature}.

import (
	"bytes"
	"encoding/hex"
	"fmt"
	"sort"

	"github.com/zmap/zlint/v3/lint"

	"verif/core"
	"verif/der"
	"verif/seeds"
	"verif/zl"
)

// withSignature returns the certificate with its signature BIT STRING content replaced (unused bits 0).
func withSignature(certDER, sig []byte) []byte {
	root, err := der.Parse(certDER)
	if err != nil {
		return nil
	}
	an := sigNode(root)
	if an == nil {
		return nil
	}
	an.Wrapped, an.BitPad, an.Children = false, false, nil
	an.Content = append([]byte{0}, sig...)
	return root.Encode()
}

func rawSignature(certDER []byte) []byte {
	root, err := der.Parse(certDER)
	if err != nil {
		return nil
	}
	sn := sigNode(root)
	if sn == nil {
		return nil
	}
	plain, rest, perr := splitTLV(sn.Encode())
	if perr != nil || len(rest) != 0 || len(plain) < 2 {
		return nil
	}
	return plain[1:]
}

// scopeClass: which sources judge the object at all (some lint of the source is not NA).
func scopeClass(o *zl.Obj) string {
	rs, p := zl.Lint(o, lint.GlobalRegistry())
	if p != nil || rs == nil {
		return ""
	}
	live := map[string]bool{}
	for _, r := range rs.Results {
		if r != nil && r.Status != lint.NA {
			live[string(r.LintMetadata.Source)] = true
		}
	}
	var ks []string
	for k := range live {
		ks = append(ks, k)
	}
	sort.Strings(ks)
	return fmt.Sprint(ks)
}

func c09DonorStep(donor, recipient []byte, x []byte) (diffs [][2]string, variant []byte) {
	dv := withSignature(donor, x)
	rv := withSignature(recipient, x)
	if dv == nil || rv == nil {
		return nil, nil
	}
	d, err1 := zl.Parse(seeds.Cert, dv)
	r0, err2 := zl.Parse(seeds.Cert, recipient)
	r1, err3 := zl.Parse(seeds.Cert, rv)
	if err1 != nil || err2 != nil || err3 != nil {
		return nil, nil
	}
	if !bytes.Equal(r0.Cert.RawTBSCertificate, r1.Cert.RawTBSCertificate) {
		return nil, nil
	}
	zl.Lint(d, lint.GlobalRegistry())
	return c09Compare(r0, r1), rv
}

func c09Donors(ctx *core.Ctx, rep *core.Report, certs []seeds.Seed) {
	// one donor per scope class, in corpus order (deterministic)
	type donor struct {
		name, class string
		der         []byte
	}
	var donors []donor
	seen := map[string]bool{}
	for i := range certs {
		s := &certs[i]
		o, err := zl.Parse(seeds.Cert, s.DER)
		if err != nil || bytes.Equal(o.Cert.RawIssuer, o.Cert.RawSubject) {
			continue
		}
		cl := scopeClass(o)
		if cl == "" || seen[cl] {
			continue
		}
		seen[cl] = true
		donors = append(donors, donor{s.Name, cl, s.DER})
		if len(donors) >= 10 {
			break
		}
	}
	rep.Add("g_donor_scope_classes", int64(len(donors)))
	for i := range certs {
		if !ctx.Mine(uint64(i)) {
			continue
		}
		s := &certs[i]
		o, err := zl.Parse(seeds.Cert, s.DER)
		if err != nil || bytes.Equal(o.Cert.RawIssuer, o.Cert.RawSubject) {
			continue
		}
		orig := rawSignature(s.DER)
		if len(orig) == 0 {
			continue
		}
		for _, d := range donors {
			if d.name == s.Name {
				continue
			}
			for xi, x := range [][]byte{make([]byte, len(orig)), orig} {
				diffs, variant := c09DonorStep(d.der, s.DER, x)
				if variant == nil {
					continue
				}
				rep.Inc("states")
				rep.Add("transitions", 3)
				rep.Inc("validated")
				rep.Inc("donor_histories")
				for _, df := range diffs {
					rep.Violate(df[0], fmt.Sprintf("%s [after linting %s carrying the same signature bits (%s); recipient %s]", df[1], d.name, []string{"zeros", "the recipient's own signature"}[xi], s.Name),
						map[string]interface{}{"op": "donor", "kind": "cert", "seed": s.Name, "der_hex": hex.EncodeToString(s.DER), "donor_der_hex": hex.EncodeToString(d.der), "x_hex": hex.EncodeToString(x)})
				}
			}
		}
	}
}

func replayC09Donor(rp map[string]interface{}) (string, error) {
	get := func(k string) []byte {
		s, _ := rp[k].(string)
		b, _ := hex.DecodeString(s)
		return b
	}
	diffs, variant := c09DonorStep(get("donor_der_hex"), get("der_hex"), get("x_hex"))
	if variant == nil {
		return "", fmt.Errorf("artefact does not parse")
	}
	if len(diffs) > 0 {
		return diffs[0][0] + ": " + diffs[0][1], nil
	}
	return "", nil
}

// c09Fragments: signature bits that look like certificate content. The only values a verdict could be computed
// from without decoding or verifying the signature are byte patterns that mean something elsewhere in a
// certificate — so the variants are *all of those the corpus knows*: every element (extension, extension field,
// name, attribute, key, validity …) of the to-be-signed body of every corpus certificate that fits into the
// recipient's signature, placed at the start of it (rest zero) — deduplicated by bytes. Recipients: one
// certificate per scope class plus the TLS-leaf template.
func c09Fragments(ctx *core.Ctx, rep *core.Report, donorsFrom []seeds.Seed, recipientsFrom []seeds.Seed) {
	type recip struct {
		name string
		der  []byte
		obj  *zl.Obj
		base map[string][2]string
		sig  []byte
	}
	var recips []recip
	seen := map[string]bool{}
	addRecip := func(name string, b []byte) {
		o, err := zl.Parse(seeds.Cert, b)
		if err != nil || bytes.Equal(o.Cert.RawIssuer, o.Cert.RawSubject) {
			return
		}
		cl := scopeClass(o)
		if cl == "" || seen[cl] {
			return
		}
		sig := rawSignature(b)
		if len(sig) < 64 {
			return
		}
		rs, p := zl.Lint(o, lint.GlobalRegistry())
		if p != nil || rs == nil {
			return
		}
		base := map[string][2]string{}
		for n, r := range rs.Results {
			if r != nil {
				base[n] = [2]string{r.Status.String(), canonTokens(r.Details)}
			}
		}
		seen[cl] = true
		recips = append(recips, recip{name, b, o, base, sig})
	}
	addRecip("template_tls_leaf", tlsLeafSpec(date(2024, 3, 1), date(2024, 9, 1)).Build())
	for i := range recipientsFrom {
		if len(recips) >= 9 {
			break
		}
		if recipientsFrom[i].Kind == seeds.Cert {
			addRecip(recipientsFrom[i].Name, recipientsFrom[i].DER)
		}
	}
	rep.Add("g_fragment_recipients", int64(len(recips)))
	frags := map[string]string{} // bytes → donor
	var order []string
	for i := range donorsFrom {
		s := &donorsFrom[i]
		if s.Kind != seeds.Cert {
			continue
		}
		root, err := der.Parse(s.DER)
		if err != nil || len(root.Children) == 0 {
			continue
		}
		root.Children[0].Walk(func(n, parent *der.Node, idx int) {
			e := n.Encode()
			if len(e) < 5 || len(e) > 512 {
				return
			}
			k := string(e)
			if _, ok := frags[k]; !ok {
				frags[k] = s.Name
				order = append(order, k)
			}
		})
	}
	rep.Add("g_distinct_fragments", int64(len(order)))
	for fi, f := range order {
		if !ctx.Mine(uint64(fi)) {
			continue
		}
		if ctx.Expired() {
			rep.Cap("C09 fragments: deadline at fragment %d of %d", fi, len(order))
			return
		}
		for ri := range recips {
			r := &recips[ri]
			if len(f) > len(r.sig) {
				continue
			}
			x := make([]byte, len(r.sig))
			copy(x, f)
			vb := withSignature(r.der, x)
			o, err := zl.Parse(seeds.Cert, vb)
			if err != nil || !bytes.Equal(o.Cert.RawTBSCertificate, r.obj.Cert.RawTBSCertificate) {
				rep.Inc("variant_rejected_by_parser")
				continue
			}
			rs, p := zl.Lint(o, lint.GlobalRegistry())
			rep.Inc("states")
			rep.Inc("transitions")
			rep.Inc("validated")
			rep.Inc("fragment_signature_variants")
			if p != nil || rs == nil {
				rep.Violate("C09|panic_depends_on_signature", fmt.Sprintf("panic with a signature carrying an element of %s: %v [recipient %s]", frags[f], p, r.name),
					map[string]interface{}{"kind": "cert", "seed": r.name, "der_hex": hex.EncodeToString(r.der), "variant_der_hex": hex.EncodeToString(vb), "op": "fragment"})
				continue
			}
			for n, q := range rs.Results {
				b, ok := r.base[n]
				if !ok || q == nil {
					continue
				}
				if b[0] != q.Status.String() || b[1] != canonTokens(q.Details) {
					rep.Violate("C09|"+n+"|status", fmt.Sprintf("%s: %s %q as issued, %s %q when the signature bits spell an element (% x…) of %s [recipient %s]", n, b[0], b[1], q.Status, q.Details, []byte(f)[:min(12, len(f))], frags[f], r.name),
						map[string]interface{}{"kind": "cert", "seed": r.name, "der_hex": hex.EncodeToString(r.der), "variant_der_hex": hex.EncodeToString(vb), "op": "fragment"})
				}
			}
		}
	}
}

func replayC09Fragment(rp map[string]interface{}) (string, error) {
	get := func(k string) []byte {
		s, _ := rp[k].(string)
		b, _ := hex.DecodeString(s)
		return b
	}
	a, err1 := zl.Parse(seeds.Cert, get("der_hex"))
	b, err2 := zl.Parse(seeds.Cert, get("variant_der_hex"))
	if err1 != nil || err2 != nil {
		return "", fmt.Errorf("artefact does not parse")
	}
	if d := c09Compare(a, b); len(d) > 0 {
		return d[0][0] + ": " + d[0][1], nil
	}
	return "", nil
}
