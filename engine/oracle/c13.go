package oracle

import (
	"bytes"
	"encoding/json"
	"fmt"
	"go/ast"
	"go/parser"
	"go/token"
	"os"
	"os/exec"
	"path/filepath"
	"sort"
	"strconv"
	"strings"

	"github.com/zmap/zlint/v3/lint"
	_ "github.com/zmap/zlint/v3/profiles"

	"verif/core"
	"verif/seeds"
)

func init() {
	core.Checks["C13"] = checkC13
}

func runCLI(args ...string) (stdout string, code int, err error) {
	bin := os.Getenv("VERIF_ZLINT")
	if bin == "" {
		return "", 0, fmt.Errorf("VERIF_ZLINT not set")
	}
	cmd := exec.Command(bin, args...)
	var out, errb bytes.Buffer
	cmd.Stdout, cmd.Stderr = &out, &errb
	cmd.Stdin = strings.NewReader("")
	e := cmd.Run()
	if e != nil {
		if ee, ok := e.(*exec.ExitError); ok {
			return out.String(), ee.ExitCode(), nil
		}
		return "", 0, e
	}
	return out.String(), 0, nil
}

// oneCharVariants: the string with one character changed / dropped / case changed.
func oneCharVariants(s string) []string {
	var out []string
	if len(s) == 0 {
		return out
	}
	for _, i := range []int{0, len(s) / 2, len(s) - 1} {
		b := []byte(s)
		if b[i] == 'q' {
			b[i] = 'x'
		} else {
			b[i] = 'q'
		}
		out = append(out, string(b))
		out = append(out, s[:i]+s[i+1:])
	}
	if u := strings.ToUpper(s); u != s {
		out = append(out, u)
	}
	if l := strings.ToLower(s); l != s {
		out = append(out, l)
	}
	out = append(out, s+"x", "x"+s)
	return out
}

func checkC13(ctx *core.Ctx, rep *core.Report) {
	g := lint.GlobalRegistry()
	names := g.Names()
	nameSet := map[string]bool{}
	for _, n := range names {
		nameSet[n] = true
	}
	srcs := sortedSources(g)
	srcSet := map[string]bool{}
	for _, s := range srcs {
		srcSet[string(s)] = true
	}
	rep.Add("g_names", int64(len(names)))
	rep.Add("g_sources", int64(len(srcs)))
	op := func(k string, extra ...string) map[string]interface{} {
		return map[string]interface{}{"op": k, "args": extra}
	}
	idx := uint64(0)
	// ---- names --------------------------------------------------------------
	for _, n := range names {
		idx++
		if !ctx.Mine(idx) {
			continue
		}
		rep.Inc("states")
		for _, o := range []lint.FilterOptions{{IncludeNames: []string{n}}, {ExcludeNames: []string{n}}} {
			r, err := g.Filter(o)
			rep.Inc("transitions")
			rep.Inc("validated")
			if err != nil {
				rep.Violate("C13|name_rejected|"+n, fmt.Sprintf("listed lint name %q is rejected by Filter: %v", n, err), op("filter_name", n))
				continue
			}
			has := false
			for _, x := range r.Names() {
				has = has || x == n
			}
			if has != (len(o.IncludeNames) > 0) {
				rep.Violate("C13|name_not_selected|"+n, fmt.Sprintf("selecting by the listed name %q does not select/deselect it", n), op("filter_name", n))
			}
		}
		// a listed name is accepted however it is written into the list: twice, twice with stray blanks, next to another
		// listed name in either order, in both lists at once (a multiset of known names is a set of known names)
		other := names[(int(idx)*7)%len(names)]
		if other == n {
			other = names[(int(idx)*7+1)%len(names)]
		}
		for _, o := range []lint.FilterOptions{
			{IncludeNames: []string{n, n}}, {IncludeNames: []string{n, " " + n + "\t"}}, {ExcludeNames: []string{n, n}},
			{IncludeNames: []string{n, other}}, {IncludeNames: []string{other, n}}, {IncludeNames: []string{other, n, other}},
			{IncludeNames: []string{n}, ExcludeNames: []string{other}}, {IncludeNames: []string{n, other}, ExcludeNames: []string{other, other}},
		} {
			r, err := g.Filter(o)
			rep.Inc("transitions")
			rep.Inc("validated")
			if err != nil {
				rep.Violate("C13|name_rejected_in_list|"+n, fmt.Sprintf("listed lint name %q is rejected by Filter when the lists are %s: %v", n, descOpts(o), err), op("filter_name_list", n))
				continue
			}
			has := false
			for _, x := range r.Names() {
				has = has || x == n
			}
			if has != (len(o.IncludeNames) > 0) {
				rep.Violate("C13|name_not_selected|"+n, fmt.Sprintf("selecting by the listed name %q (%s) does not select/deselect it", n, descOpts(o)), op("filter_name_list", n))
			}
		}
		for _, v := range oneCharVariants(n) {
			if nameSet[strings.TrimSpace(v)] {
				continue
			}
			for _, o := range []lint.FilterOptions{{IncludeNames: []string{v}}, {ExcludeNames: []string{v}}, {IncludeNames: []string{n, v}},
				{IncludeNames: []string{n}, ExcludeNames: []string{v}}, {ExcludeNames: []string{n}, IncludeNames: []string{v}}, {ExcludeNames: []string{v, n}}} {
				_, err := g.Filter(o)
				rep.Inc("transitions")
				rep.Inc("validated")
				if err == nil {
					rep.Violate("C13|unknown_name_accepted", fmt.Sprintf("unknown lint name %q is silently accepted", v), op("filter_unknown", v))
				}
			}
		}
		rep.Sample(2, map[string]interface{}{"name": n, "unknown_variants": len(oneCharVariants(n))})
	}
	if ctx.Shard != 0 {
		return
	}
	// ---- sources: parser, JSON, CLI -------------------------------------------
	for i, s := range srcs {
		rep.Inc("states")
		for _, raw := range []string{string(s), " " + string(s) + " ", string(s) + ",", "," + string(s)} {
			var l lint.SourceList
			err := l.FromString(raw)
			rep.Inc("transitions")
			rep.Inc("validated")
			if err != nil || len(l) != 1 || l[0] != s {
				rep.Violate("C13|source_rejected|"+string(s), fmt.Sprintf("listed source %q is not accepted by the source-list parser (input %q → %v, err %v)", s, raw, l, err), op("source_fromstring", raw))
			}
		}
		for j, t := range srcs {
			if j == i {
				continue
			}
			var l lint.SourceList
			raw := string(s) + " , " + string(t)
			err := l.FromString(raw)
			rep.Inc("transitions")
			rep.Inc("validated")
			if err != nil || len(l) != 2 || l[0] != s || l[1] != t {
				rep.Violate("C13|source_pair_rejected", fmt.Sprintf("source list %q → %v, err %v", raw, l, err), op("source_fromstring", raw))
			}
		}
		b, err := json.Marshal(s)
		var back lint.LintSource
		if err == nil {
			err = json.Unmarshal(b, &back)
		}
		rep.Inc("validated")
		if err != nil || back != s {
			rep.Violate("C13|source_json|"+string(s), fmt.Sprintf("listed source %q does not survive a JSON round trip: %v", s, err), op("source_json", string(s)))
		}
		// library filter by that source selects exactly its lints
		r, err := g.Filter(lint.FilterOptions{IncludeSources: lint.SourceList{s}})
		if err != nil || len(r.Names()) == 0 {
			rep.Violate("C13|source_selects_nothing|"+string(s), fmt.Sprintf("IncludeSources [%s] selects nothing", s), op("source_filter", string(s)))
		}
		for _, v := range oneCharVariants(string(s)) {
			if srcSet[strings.TrimSpace(v)] || isKnownSourceString(v) {
				continue
			}
			var l lint.SourceList
			err := l.FromString(v)
			rep.Inc("transitions")
			rep.Inc("validated")
			if err == nil {
				rep.Violate("C13|unknown_source_accepted", fmt.Sprintf("unknown source %q is silently accepted by the source-list parser (→ %v)", v, l), op("source_unknown", v))
			}
			var x lint.LintSource
			jb, _ := json.Marshal(v)
			if json.Unmarshal(jb, &x) == nil {
				rep.Violate("C13|unknown_source_json_accepted", fmt.Sprintf("unknown source %q is accepted when decoding JSON", v), op("source_unknown_json", v))
			}
			// mixed with a known one
			if err := l.FromString(string(s) + "," + v); err == nil {
				rep.Violate("C13|unknown_source_accepted", fmt.Sprintf("unknown source %q after a known one is silently accepted", v), op("source_unknown", v))
			}
		}
	}
	// ---- profiles ---------------------------------------------------------------
	profs := lint.AllProfiles()
	rep.Add("g_profiles", int64(len(profs)))
	for _, p := range profs {
		rep.Inc("states")
		for _, n := range p.LintNames {
			rep.Inc("validated")
			if !nameSet[n] {
				rep.Violate("C13|profile_names_missing_lint|"+p.Name, fmt.Sprintf("profile %q names lint %q which is not registered", p.Name, n), op("profile", p.Name, n))
			}
		}
		var o lint.FilterOptions
		o.AddProfile(p)
		if _, err := g.Filter(o); err != nil {
			rep.Violate("C13|profile_unusable|"+p.Name, fmt.Sprintf("profile %q cannot be used to filter: %v", p.Name, err), op("profile", p.Name))
		}
		// … also next to include names the profile already contains, and added twice
		if len(p.LintNames) > 0 {
			o2 := lint.FilterOptions{IncludeNames: []string{p.LintNames[0]}}
			o2.AddProfile(p)
			o2.AddProfile(p)
			if _, err := g.Filter(o2); err != nil {
				rep.Violate("C13|profile_unusable|"+p.Name, fmt.Sprintf("profile %q cannot be combined with an include name it contains: %v", p.Name, err), op("profile", p.Name))
			}
		}
		if q, ok := lint.GetProfile(p.Name); !ok || q.Name != p.Name {
			rep.Violate("C13|profile_lookup|"+p.Name, "listed profile is not found by name", op("profile", p.Name))
		}
	}
	if len(profs) == 0 {
		rep.Note("no profile is registered in this tree (profile clause is vacuous today; it is re-evaluated on every run)")
	}
	// ---- CLI ----------------------------------------------------------------------
	if os.Getenv("VERIF_ZLINT") == "" {
		rep.Hole("CLI binary not available: CLI clauses skipped")
		return
	}
	out, code, err := runCLI("-list-lints-source")
	if err != nil || code != 0 {
		rep.InternalError("zlint -list-lints-source: code %d err %v", code, err)
		return
	}
	var listed []string
	for _, l := range strings.Split(out, "\n") {
		if l = strings.TrimSpace(l); l != "" {
			listed = append(listed, l)
		}
	}
	sort.Strings(listed)
	rep.Add("g_cli_listed_sources", int64(len(listed)))
	for _, s := range listed {
		rep.Inc("states")
		if !srcSet[s] {
			rep.Violate("C13|cli_lists_unregistered_source|"+s, "CLI lists source "+s+" which the registry does not", op("cli", "-list-lints-source"))
		}
		for _, flag := range []string{"-includeSources", "-excludeSources"} {
			_, code, err := runCLI(flag, s, "-list-lints-json")
			rep.Inc("transitions")
			rep.Inc("validated")
			if err != nil || code != 0 {
				rep.Violate("C13|cli_source_rejected|"+s, fmt.Sprintf("zlint %s %s exits %d: a listed source cannot be used to select", flag, s, code), op("cli", flag, s))
			}
		}
		_, code, _ := runCLI("-includeSources", s+"x", "-list-lints-json")
		rep.Inc("validated")
		if code == 0 {
			rep.Violate("C13|cli_unknown_source_accepted", "zlint -includeSources "+s+"x exits 0", op("cli", "-includeSources", s+"x"))
		}
	}
	for _, s := range srcs {
		found := false
		for _, l := range listed {
			found = found || l == string(s)
		}
		if !found {
			rep.Violate("C13|cli_misses_source|"+string(s), "registered source "+string(s)+" is not printed by -list-lints-source", op("cli", "-list-lints-source"))
		}
	}
	// lint names through the CLI: every 8th name (quick) / every name, plus unknown variants.
	// -list-lints-json still filters first, so an unknown name must make it fail.
	step := 8
	if !ctx.Quick() {
		step = 1
	}
	for i := 0; i < len(names); i += step {
		n := names[i]
		_, code, err := runCLI("-includeNames", n, "-list-lints-json")
		rep.Inc("transitions")
		rep.Inc("validated")
		if err != nil || code != 0 {
			rep.Violate("C13|cli_name_rejected|"+n, fmt.Sprintf("zlint -includeNames %s exits %d", n, code), op("cli", "-includeNames", n))
		}
		_, code, _ = runCLI("-excludeNames", n+"_x", "-list-lints-json")
		rep.Inc("validated")
		if code == 0 {
			rep.Violate("C13|cli_unknown_name_accepted", "zlint -excludeNames "+n+"_x exits 0", op("cli", "-excludeNames", n+"_x"))
		}
	}
	_, code, _ = runCLI("-profile", "no_such_profile_x", "-list-lints-json")
	if code == 0 {
		rep.Violate("C13|cli_unknown_profile_accepted", "zlint -profile no_such_profile_x exits 0", op("cli", "-profile"))
	}
	c13Histories(ctx, rep)
}

// listed ⇒ selectable must hold in every state of the registry, not only just after start-up (reghist.go)
func c13Histories(ctx *core.Ctx, rep *core.Report) {
	regHistories(ctx, rep, "C13", map[string]bool{"select": true}, regHistDepth(ctx))
}

// isKnownSourceString: a variant that happens to be another known constant
// (e.g. RFC5280 → RFC5480 is one character away) is not "unknown".
func isKnownSourceString(v string) bool {
	return declaredSources()[strings.TrimSpace(v)]
}

var declaredSourcesCache map[string]bool

// declaredSources reads the LintSource constants from v3/lint/source.go (go/ast).
func declaredSources() map[string]bool {
	if declaredSourcesCache != nil {
		return declaredSourcesCache
	}
	m := map[string]bool{}
	fset := token.NewFileSet()
	af, err := parser.ParseFile(fset, filepath.Join(seeds.RepoDir(), "v3", "lint", "source.go"), nil, 0)
	if err == nil {
		ast.Inspect(af, func(n ast.Node) bool {
			vs, ok := n.(*ast.ValueSpec)
			if !ok {
				return true
			}
			if id, ok := vs.Type.(*ast.Ident); !ok || id.Name != "LintSource" {
				return true
			}
			for _, v := range vs.Values {
				if bl, ok := v.(*ast.BasicLit); ok && bl.Kind == token.STRING {
					if s, err := strconv.Unquote(bl.Value); err == nil {
						m[s] = true
					}
				}
			}
			return true
		})
	}
	declaredSourcesCache = m
	return m
}
