package oracle

// Registry histories (shared by C12, C13, C14, C08): explicit-state exploration of the registry as a state machine.
//
// A state is the history of operations that reached it *from a freshly started process* (the global registry just
// after the init functions ran). Live registries cannot be cloned or reset, so every maximal history of the bound
// is executed in its own fresh process (the worker re-executes itself: `verifrun reghist <ops>`), the invariant is
// evaluated after every operation, so all prefixes are covered on the way. No deduplication of states: the hidden
// part of the state (memoised listings, name indexes, shared backing arrays) is exactly what is being looked for.
//
// Alphabet (simplest first):
//   rc / rl / ro   register a new mock certificate / CRL / OCSP lint through the public Register* call
//   nm             list: Names(), Sources(), per-kind listings (and scribble over the returned slices)
//   js             WriteJSON listing
//   sel            select what is listed: singleton include / exclude of the newest name of every kind, of a start-up
//                  name of every kind, and one unknown name
//   is             Filter(IncludeSources [A, B]) — (A, B) rotates through the ordered pairs of registered sources
//   xs             Filter(ExcludeSources [A])   — A rotates through the registered sources
//   in             Filter(IncludeNames [start-up cert lint, newest mock]) followed by configuring the result
//   lt             lint: one of the history objects (a diverse certificate set chosen by the parent, one CRL, one OCSP
//                  response — rotating with the step) is linted with the global registry; to the registry a lint run is a
//                  read, so every table must be what it was (and the result set must have one entry per lint of the
//                  model of that kind)
//
// Invariant after every operation (reference = plain slice of lintDesc carried along):
//   tables   every lookup structure of the global registry equals the model (compareRegistryMulti)       → C12
//   select   every listed name is accepted as include and as exclude and selects exactly the lints of
//            that name; an unknown name is rejected                                                        → C13
//   listing  WriteJSON = one line per registered lint, each with that lint's own fields                    → C14
//   filter   the registry returned by Filter equals the set comprehension over the model                   → C08

import (
	"encoding/json"
	"fmt"
	"os"
	"os/exec"
	"sort"
	"strings"

	"github.com/zmap/zlint/v3/lint"

	"verif/core"
	"verif/seeds"
	"verif/zl"
)

var regHistAlphabet = []string{"rc", "rl", "ro", "nm", "js", "sel", "is", "xs", "in", "lt"}

type regHistFinding struct {
	Tag  string `json:"tag"`
	Key  string `json:"key"`
	What string `json:"what"`
	Step int    `json:"step"`
}

type regHistOut struct {
	Findings  []regHistFinding `json:"findings"`
	Steps     int              `json:"steps"`
	Validated int              `json:"validated"`
}

// RunRegHistory executes one history in this (fresh) process and prints the findings as JSON.
func RunRegHistory(ops []string, rot int, objNames []string) {
	out := regHistOut{}
	g := lint.GlobalRegistry()
	histObjs := seeds.LoadNamed(objNames...) // reading and parsing files does not touch zlint
	model := snapshotRegistry(g)
	startup := map[string]string{}
	for _, d := range model {
		if startup[d.Kind] == "" {
			startup[d.Kind] = d.Name
		}
	}
	newest := map[string]string{}
	srcs := sortedSources(g) // (Sources() is in map order: the rotation must mean the same source in every process)
	var srcList []lint.LintSource
	for _, s := range srcs {
		srcList = append(srcList, s)
	}
	step := 0
	add := func(tag, key, what string) {
		out.Findings = append(out.Findings, regHistFinding{tag, key, what, step})
	}
	// a private report collects what the shared comparison helpers say
	collect := func(tag string, f func(rep *core.Report)) {
		rep := core.NewReport("H", 0)
		f(rep)
		for k, v := range rep.Violations {
			add(tag, k, v.What)
		}
	}
	counter := 0
	mockSrc := []lint.LintSource{lint.Community, lint.RFC5280, lint.RFC6960}
	register := func(kind string) {
		counter++
		name := fmt.Sprintf("n_zz_hist_%s_%d", kind, counter)
		meta := lint.LintMetadata{Name: name, Description: "history mock " + name, Citation: "§" + name, Source: mockSrc[(counter+rot)%len(mockSrc)]}
		var ptr interface{}
		var pan interface{}
		func() {
			defer func() { pan = recover() }()
			switch kind {
			case "cert":
				l := &lint.CertificateLint{LintMetadata: meta, Lint: func() lint.CertificateLintInterface { return seqCert{} }}
				ptr = l
				lint.RegisterCertificateLint(l)
			case "crl":
				l := &lint.RevocationListLint{LintMetadata: meta, Lint: func() lint.RevocationListLintInterface { return seqCRL{} }}
				ptr = l
				lint.RegisterRevocationListLint(l)
			case "ocsp":
				l := &lint.OcspResponseLint{LintMetadata: meta, Lint: func() lint.OcspResponseLintInterface { return seqOCSP{} }}
				ptr = l
				lint.RegisterOcspResponseLint(l)
			}
		}()
		if pan != nil {
			add("tables", "register_refused", fmt.Sprintf("registration of a new %s lint %s was refused: %v", kind, name, pan))
			return
		}
		model = append(model, lintDesc{name, meta.Source, kind, ptr, meta})
		newest[kind] = name
	}
	byName := func(name string) []lintDesc {
		var o []lintDesc
		for _, d := range model {
			if d.Name == name {
				o = append(o, d)
			}
		}
		return o
	}
	filterAgainstModel := func(tag string, o lint.FilterOptions, desc string) lint.Registry {
		want, wantErr := refFilter(model, o)
		r, err := g.Filter(o)
		out.Validated++
		if wantErr != (err != nil) {
			if wantErr {
				add(tag, "error_missing", desc+": must be rejected but was accepted")
			} else {
				add(tag, "error_unexpected", desc+": valid options rejected: "+err.Error())
			}
			return nil
		}
		if err != nil {
			return nil
		}
		for _, b := range compareRegistryMulti(r, want) {
			add(tag, "result", desc+": "+b)
		}
		return r
	}
	for i, op := range ops {
		step = i + 1
		out.Steps++
		switch op {
		case "rc":
			register("cert")
		case "rl":
			register("crl")
		case "ro":
			register("ocsp")
		case "nm":
			// the invariant below does the listing; here additionally the per-kind source listings are scribbled over
			// (the per-kind Lints() slices are the registry's own by design on this tree: left alone)
			for _, l := range []interface{ Sources() lint.SourceList }{g.CertificateLints(), g.RevocationListLints(), g.OcspResponseLints()} {
				s := l.Sources()
				for k := range s {
					s[k] = "zz_scribble"
				}
			}
		case "js":
			collect("listing", func(rep *core.Report) { c14WriteJSONOne(rep, "global", g) })
			out.Validated++
		case "sel":
			var names []string
			for _, k := range []string{"cert", "crl", "ocsp"} {
				if newest[k] != "" {
					names = append(names, newest[k])
				}
				if startup[k] != "" {
					names = append(names, startup[k])
				}
			}
			for _, n := range names {
				filterAgainstModel("select", lint.FilterOptions{IncludeNames: []string{n}}, "include listed name "+n)
				filterAgainstModel("select", lint.FilterOptions{ExcludeNames: []string{" " + n + "\t"}}, "exclude listed name "+n)
				if len(byName(n)) == 0 {
					add("select", "model", "internal: "+n+" not in model")
				}
			}
			filterAgainstModel("select", lint.FilterOptions{IncludeNames: []string{"n_zz_hist_never_registered"}}, "include unknown name")
			filterAgainstModel("select", lint.FilterOptions{ExcludeNames: []string{names[0], "n_zz_hist_never_registered"}}, "exclude unknown name next to a known one")
		case "is":
			n := len(srcList)
			k := (rot + i*7) % (n * n)
			a, b := srcList[k/n], srcList[k%n]
			filterAgainstModel("filter", lint.FilterOptions{IncludeSources: lint.SourceList{a, b}}, fmt.Sprintf("IncludeSources [%s %s]", a, b))
		case "xs":
			a := srcList[(rot+i*5)%len(srcList)]
			filterAgainstModel("filter", lint.FilterOptions{ExcludeSources: lint.SourceList{a}}, fmt.Sprintf("ExcludeSources [%s]", a))
		case "lt":
			if len(histObjs) == 0 {
				break
			}
			sd := histObjs[(rot+i)%len(histObjs)]
			o, err := zl.Parse(sd.Kind, sd.DER)
			if err != nil {
				break
			}
			rs, p := zl.Lint(o, g)
			out.Validated++
			if p != nil || rs == nil {
				break // C01/C02
			}
			kind := map[seeds.Kind]string{seeds.Cert: "cert", seeds.CRL: "crl", seeds.OCSP: "ocsp"}[sd.Kind]
			want := 0
			for _, d := range model {
				if d.Kind == kind {
					want++
					if rs.Results[d.Name] == nil {
						add("tables", "lint_run_misses_registered_lint", fmt.Sprintf("linting %s with the global registry gives no result for the registered %s lint %s", sd.Name, kind, d.Name))
						break
					}
				}
			}
			if len(rs.Results) != want {
				add("tables", "lint_run_result_count", fmt.Sprintf("linting %s with the global registry gives %d results, the registry holds %d %s lints", sd.Name, len(rs.Results), want, kind))
			}
		case "in":
			inc := []string{startup["cert"]}
			for _, k := range []string{"ocsp", "crl", "cert"} {
				if newest[k] != "" {
					inc = append(inc, newest[k])
					break
				}
			}
			if r := filterAgainstModel("filter", lint.FilterOptions{IncludeNames: inc}, fmt.Sprintf("IncludeNames %v", inc)); r != nil {
				if cfg, err := lint.NewConfigFromString("[e_rsa_fermat_factorization]\nRounds = 7\n"); err == nil {
					r.SetConfiguration(cfg)
				}
			}
		}
		// invariant after every operation
		for _, b := range compareRegistryMulti(g, model) {
			add("tables", "tables_out_of_step", b)
		}
		// … and the names that are NOT registered yet are found by no lookup (the very names the next registrations will
		// use: a lookup that remembers its misses turns this probe into a later violation of the line above)
		for _, k := range []string{"cert", "crl", "ocsp"} {
			next := fmt.Sprintf("n_zz_hist_%s_%d", k, counter+1)
			if g.ByName(next) != nil || g.CertificateLints().ByName(next) != nil || g.RevocationListLints().ByName(next) != nil || g.OcspResponseLints().ByName(next) != nil {
				add("tables", "unregistered_name_found", "a lookup by name finds "+next+", which has not been registered")
			}
		}
		out.Validated++
	}
	b, _ := json.Marshal(out)
	fmt.Println(string(b))
}

// regHistories enumerates every history of exactly `depth` operations (all shorter ones are its prefixes), each in
// a fresh process, and reports the findings whose tag belongs to the calling property.
func regHistories(ctx *core.Ctx, rep *core.Report, prop string, tags map[string]bool, depth int) {
	self, err := os.Executable()
	if err != nil {
		rep.InternalError("os.Executable: %v", err)
		return
	}
	A := regHistAlphabet
	if !tags["tables"] {
		// the lint operation is observed through the tables invariant (C12): the other properties keep the shorter alphabet
		A = A[:len(A)-1]
	}
	total := 1
	for i := 0; i < depth; i++ {
		total *= len(A)
	}
	distinct := map[string]bool{}
	objArg := strings.Join(regHistObjects(), ";")
	for n := 0; n < total; n++ {
		if !ctx.Mine(uint64(n)) {
			continue
		}
		if ctx.Expired() {
			rep.Cap("registry histories: deadline reached at history %d of %d", n, total)
			break
		}
		ops := make([]string, depth)
		k := n
		hasReg, hasObs := false, false
		for i := depth - 1; i >= 0; i-- {
			ops[i] = A[k%len(A)]
			k /= len(A)
		}
		for _, o := range ops {
			if o[0] == 'r' {
				hasReg = true
			} else {
				hasObs = true
			}
		}
		_ = hasReg
		_ = hasObs
		cmd := exec.Command(self, "reghist", strings.Join(ops, ","), fmt.Sprint(n), objArg)
		cmd.Env = os.Environ()
		raw, err := cmd.Output()
		if err != nil {
			rep.InternalError("registry history %v: worker failed: %v", ops, err)
			continue
		}
		var out regHistOut
		if err := json.Unmarshal(lastLine(raw), &out); err != nil {
			rep.InternalError("registry history %v: output does not decode: %v", ops, err)
			continue
		}
		rep.Inc("states")
		rep.Inc("registry_histories")
		rep.Add("transitions", int64(out.Steps))
		rep.Add("validated", int64(out.Validated))
		rep.Add("registry_history_steps", int64(out.Steps))
		if n%997 == 0 {
			rep.Sample(2, map[string]interface{}{"registry_history_from_fresh_process": ops})
		}
		sig := ""
		for _, f := range out.Findings {
			sig += f.Tag + ":" + f.Key + ";"
			if !tags[f.Tag] {
				rep.Inc("registry_history_findings_of_other_properties")
				continue
			}
			rep.Violate(prop+"|registry_history|"+f.Tag+"|"+f.Key, fmt.Sprintf("after the history %v (from a fresh process), step %d: %s", ops[:f.Step], f.Step, f.What),
				map[string]interface{}{"op": "registry_history", "ops": ops[:f.Step], "rot": n, "objects": objArg})
		}
		distinct[sig] = true
	}
	keys := make([]string, 0, len(distinct))
	for k := range distinct {
		keys = append(keys, k)
	}
	sort.Strings(keys)
	for _, k := range keys {
		rep.SetAdd("registry_history_outcomes", k)
	}
}

func regHistDepth(ctx *core.Ctx) int {
	if d := argInt(ctx, "histdepth", 0); d > 0 {
		return d
	}
	if ctx.Quick() {
		return 4
	}
	return 5
}

func lastLine(b []byte) []byte {
	s := strings.TrimRight(string(b), "\n")
	if i := strings.LastIndexByte(s, '\n'); i >= 0 {
		s = s[i+1:]
	}
	return []byte(s)
}

// regHistObjects: what the `lt` operation lints — certificates that differ as much as the corpus allows under the global
// registry (greedy by new (lint, status) pairs: a TLS leaf, an S/MIME certificate, a CA …, so that scope-dependent paths
// of a lint run are all taken), one CRL, one OCSP response.
func regHistObjects() []string {
	all := seeds.Load()
	var certs []*seeds.Seed
	var names []string
	crl, ocsp := "", ""
	for i := range all {
		switch all[i].Kind {
		case seeds.Cert:
			if i%4 == 0 {
				certs = append(certs, &all[i])
			}
		case seeds.CRL:
			if crl == "" {
				crl = all[i].Name
			}
		case seeds.OCSP:
			if ocsp == "" {
				ocsp = all[i].Name
			}
		}
	}
	for _, d := range c10Diverse(lint.GlobalRegistry(), certs, 4) {
		names = append(names, d.Name)
	}
	if crl != "" {
		names = append(names, crl)
	}
	if ocsp != "" {
		names = append(names, ocsp)
	}
	return names
}
