package oracle

import (
	"encoding/hex"
	"fmt"
	"go/ast"
	"go/parser"
	"go/token"
	"path/filepath"
	"sort"
	"strconv"
	"strings"
	"time"

	"github.com/zmap/zlint/v3/lint"
	"github.com/zmap/zlint/v3/util"

	"verif/certgen"
	"verif/core"
	"verif/der"
	"verif/seeds"
	"verif/zl"
)

func init() {
	core.Checks["C18"] = checkC18
}

type tldEntry struct{ Key, GTLD, Deleg, Removal string }

// readTLDTable extracts the delegation table from the source of the tree
// under test (go/ast), so that every regeneration of the table is followed.
func readTLDTable() ([]tldEntry, error) {
	dir := filepath.Join(seeds.RepoDir(), "v3", "util")
	fset := token.NewFileSet()
	var out []tldEntry
	files, _ := filepath.Glob(filepath.Join(dir, "*.go"))
	for _, f := range files {
		if strings.HasSuffix(f, "_test.go") {
			continue
		}
		af, err := parser.ParseFile(fset, f, nil, 0)
		if err != nil {
			return nil, err
		}
		out = append(out, tldEntriesOf(af)...)
	}
	sort.Slice(out, func(i, j int) bool { return out[i].Key < out[j].Key })
	return out, nil
}

// tldEntriesOf: the entries of every map[string]GTLDPeriod literal in a parsed file.
func tldEntriesOf(af *ast.File) []tldEntry {
	var out []tldEntry
	{
		ast.Inspect(af, func(n ast.Node) bool {
			cl, ok := n.(*ast.CompositeLit)
			if !ok {
				return true
			}
			mt, ok := cl.Type.(*ast.MapType)
			if !ok {
				return true
			}
			if id, ok := mt.Value.(*ast.Ident); !ok || id.Name != "GTLDPeriod" {
				return true
			}
			for _, el := range cl.Elts {
				kv, ok := el.(*ast.KeyValueExpr)
				if !ok {
					continue
				}
				kl, ok := kv.Key.(*ast.BasicLit)
				if !ok {
					continue
				}
				key, _ := strconv.Unquote(kl.Value)
				e := tldEntry{Key: key}
				if v, ok := kv.Value.(*ast.CompositeLit); ok {
					for _, fe := range v.Elts {
						fkv, ok := fe.(*ast.KeyValueExpr)
						if !ok {
							continue
						}
						name := fmt.Sprint(fkv.Key)
						lit, ok := fkv.Value.(*ast.BasicLit)
						if !ok {
							continue
						}
						s, _ := strconv.Unquote(lit.Value)
						switch name {
						case "GTLD":
							e.GTLD = s
						case "DelegationDate":
							e.Deleg = s
						case "RemovalDate":
							e.Removal = s
						}
					}
				}
				out = append(out, e)
			}
			return false
		})
	}
	return out
}

// refValidTLD is the property, literally.
func refValidTLD(table map[string]tldEntry, domain string, t time.Time) bool {
	i := strings.LastIndexByte(domain, '.')
	label := strings.ToLower(domain[i+1:])
	e, ok := table[label]
	if !ok {
		return false
	}
	d, err := time.Parse("2006-01-02", e.Deleg)
	if err != nil {
		d = time.Time{} // unparseable: covered by the well-formedness clause
	}
	if t.Before(d) {
		return false
	}
	if e.Removal != "" {
		r, err := time.Parse("2006-01-02", e.Removal)
		if err == nil && t.After(r) {
			return false
		}
		if err != nil && t.After(time.Time{}) {
			return false
		}
	}
	return true
}

func mixCase(s string) string {
	b := []byte(s)
	for i := range b {
		if i%2 == 0 && b[i] >= 'a' && b[i] <= 'z' {
			b[i] -= 32
		}
	}
	return string(b)
}

var c18Zones = []*time.Location{time.UTC, time.FixedZone("+14", 14*3600), time.FixedZone("-12", -12*3600), time.FixedZone("+0530", 5*3600+1800), time.FixedZone("-0001", -60)}

func checkC18(ctx *core.Ctx, rep *core.Report) {
	c18Generator(ctx, rep)
	entries, err := readTLDTable()
	if err != nil || len(entries) == 0 {
		rep.InternalError("cannot read the TLD table from the sources: %v (entries=%d)", err, len(entries))
		return
	}
	rep.Add("g_table_entries", int64(len(entries)))
	table := map[string]tldEntry{}
	for _, e := range entries {
		if _, dup := table[e.Key]; dup {
			rep.Violate("C18|table|duplicate_key|"+e.Key, "table has two entries for "+e.Key, map[string]interface{}{"op": "table", "key": e.Key})
		}
		table[e.Key] = e
	}
	// --- function level ---------------------------------------------------------
	for i, e := range entries {
		if !ctx.Mine(uint64(i)) {
			continue
		}
		// well-formedness
		wf := func(k, what string) {
			rep.Violate("C18|table|"+k+"|"+e.Key, "entry "+e.Key+": "+what, map[string]interface{}{"op": "table", "key": e.Key})
		}
		if e.Key != strings.ToLower(e.Key) || e.Key != e.GTLD {
			wf("key", fmt.Sprintf("key %q is not its own lower-case name (GTLD %q)", e.Key, e.GTLD))
		}
		d, derr := time.Parse("2006-01-02", e.Deleg)
		if derr != nil {
			wf("delegation_unparseable", fmt.Sprintf("delegation date %q does not parse", e.Deleg))
		}
		var r time.Time
		if e.Removal != "" {
			var rerr error
			r, rerr = time.Parse("2006-01-02", e.Removal)
			if rerr != nil {
				wf("removal_unparseable", fmt.Sprintf("removal date %q does not parse", e.Removal))
			} else if derr == nil && r.Before(d) {
				wf("removal_before_delegation", fmt.Sprintf("removal %s earlier than delegation %s", e.Removal, e.Deleg))
			}
		}
		rep.Inc("validated")
		base := []time.Time{d.Add(-time.Second), d, d.Add(time.Second), time.Date(1, 1, 1, 0, 0, 0, 0, time.UTC), time.Date(9999, 12, 31, 23, 59, 59, 0, time.UTC)}
		if e.Removal != "" {
			base = append(base, r.Add(-time.Second), r, r.Add(time.Second))
		}
		// every instant in every zone: the answer is a function of the instant, not of the location it is expressed in
		var instants []time.Time
		for _, t := range base {
			for _, z := range c18Zones {
				instants = append(instants, t.In(z))
			}
		}
		spell := []string{e.Key, strings.ToUpper(e.Key), mixCase(e.Key)}
		for _, sp := range spell {
			shapes := []string{sp, "a." + sp, "a.b." + sp, "a." + sp + ".", "." + sp, "a.." + sp, sp + ".a", "*." + sp}
			for _, dom := range shapes {
				for _, t := range instants {
					want := refValidTLD(table, dom, t)
					got := util.HasValidTLD(dom, t)
					rep.Inc("states")
					rep.Inc("transitions")
					rep.Inc("validated")
					if want != got {
						rep.Violate("C18|HasValidTLD|"+fmt.Sprint(want), fmt.Sprintf("HasValidTLD(%q, %s) = %v, table says %v (delegation %s removal %q)", dom, t.Format(time.RFC3339), got, want, e.Deleg, e.Removal),
							map[string]interface{}{"op": "HasValidTLD", "domain": dom, "t": t.Format(time.RFC3339)})
					}
				}
			}
			if !util.IsInTLDMap(sp) {
				rep.Violate("C18|IsInTLDMap|false", fmt.Sprintf("IsInTLDMap(%q) is false for a table entry", sp), map[string]interface{}{"op": "IsInTLDMap", "label": sp})
			}
			rep.Inc("validated")
		}
		// labels one letter away that are not in the table
		for pos := 0; pos < len(e.Key) && pos < 3; pos++ {
			b := []byte(e.Key)
			if b[pos] == 'q' {
				b[pos] = 'x'
			} else {
				b[pos] = 'q'
			}
			lbl := string(b)
			if _, in := table[lbl]; in {
				continue
			}
			rep.Inc("validated")
			if util.IsInTLDMap(lbl) || util.HasValidTLD("a."+lbl, d.Add(time.Hour)) {
				rep.Violate("C18|unknown_label_accepted", fmt.Sprintf("label %q is not in the source table but is accepted", lbl), map[string]interface{}{"op": "unknown", "label": lbl})
			}
		}
		rep.Sample(3, map[string]interface{}{"tld": e.Key, "delegation": e.Deleg, "removal": e.Removal})
	}
	c18Lint(ctx, rep, entries, table)
}

// c18Encodings: the same notBefore instant as UTCTime Z and with +hhmm / -hhmm offsets (the parser accepts them
// and yields a time.Time in a fixed non-UTC zone).
var c18Encodings = []struct {
	name string
	off  int // seconds east of UTC; 0 = Z
}{{"Z", 0}, {"+1400", 14 * 3600}, {"-1200", -12 * 3600}, {"+0530", 5*3600 + 1800}}

func c18Cert(cn string, sans []string, nb time.Time, enc int) []byte {
	s := tlsLeafSpec(nb, nb.AddDate(0, 3, 0))
	if e := c18Encodings[enc]; e.off != 0 {
		loc := nb.UTC().Add(time.Duration(e.off) * time.Second)
		if loc.Year() >= 1950 && loc.Year() <= 2049 {
			s.NotBeforeN = der.Str(23, loc.Format("060102150405")+e.name)
		}
	}
	if cn == "" {
		s.Subject = certgen.Name(certgen.ATV{OID: certgen.OIDC, Tag: 19, Val: "US"})
	} else {
		s.Subject = certgen.Name(certgen.ATV{OID: certgen.OIDC, Tag: 19, Val: "US"}, certgen.ATV{OID: certgen.OIDCN, Tag: 12, Val: cn})
	}
	var gns []*der.Node
	for _, n := range sans {
		gns = append(gns, certgen.GNDNS(n))
	}
	s.Exts[len(s.Exts)-1] = certgen.SAN(false, gns...)
	return s.Build()
}

func c18Lint(ctx *core.Ctx, rep *core.Report, entries []tldEntry, table map[string]tldEntry) {
	const name = "e_dnsname_not_valid_tld"
	l := lint.GlobalRegistry().CertificateLints().ByName(name)
	if l == nil {
		rep.Hole("lint %s no longer registered", name)
		return
	}
	reg, err := lint.GlobalRegistry().Filter(lint.FilterOptions{IncludeNames: []string{name}})
	if err != nil {
		rep.InternalError("%v", err)
		return
	}
	for i, e := range entries {
		if !ctx.Mine(uint64(i)) {
			continue
		}
		d, err := time.Parse("2006-01-02", e.Deleg)
		if err != nil {
			continue
		}
		instants := []time.Time{d.Add(-time.Second), d, d.Add(time.Second)}
		if e.Removal != "" {
			if r, err := time.Parse("2006-01-02", e.Removal); err == nil {
				instants = append(instants, r.Add(-time.Second), r, r.Add(time.Second))
			}
		}
		good := "www.example.com"
		n := "a." + e.Key
		N := "A." + strings.ToUpper(e.Key)
		type shape struct {
			cn   string
			sans []string
		}
		shapes := []shape{
			{n, []string{n}}, {"", []string{n}}, {good, []string{n}}, {n, []string{good}},
			{good, []string{good, n}}, {good, []string{n, good}}, {"192.0.2.1", []string{n}}, {"10.1.2.3", []string{good}},
			{N, []string{N}}, {good, []string{good}},
		}
		if i == 0 {
			// common names around "is an IP address": textual IPv4 / IPv6 literals are exempt from the TLD test, everything
			// that merely resembles one (zone suffix, brackets, prefix length, wrong group counts, blanks) is a name
			for _, cn := range c18IPishCNs {
				shapes = append(shapes, shape{cn, []string{good}}, shape{cn, []string{n}})
			}
		}
		for _, t := range instants {
			if t.Year() < 1950 || t.Year() > 2049 {
				continue
			}
			for shi, sh := range shapes {
				for enc := range c18Encodings {
					if enc > 0 && shi > 2 {
						continue // offset encodings on the first three shapes
					}
					b := c18Cert(sh.cn, sh.sans, t, enc)
					o, err := zl.Parse(seeds.Cert, b)
					if err != nil {
						rep.Inc("parser_rejected")
						continue
					}
					if !o.Cert.NotBefore.Equal(t) {
						rep.InternalError("C18: notBefore %s encoded as %s parsed as %s", t, c18Encodings[enc].name, o.Cert.NotBefore)
						continue
					}
					rep.Tab("notbefore_zone", o.Cert.NotBefore.Location().String())
					rs, p := zl.Lint(o, reg)
					rep.Inc("states")
					rep.Inc("transitions")
					if p != nil || rs == nil || rs.Results[name] == nil {
						rep.Violate("C18|lint|panic", fmt.Sprint(p), map[string]interface{}{"kind": "cert", "der_hex": hex.EncodeToString(b)})
						continue
					}
					st := rs.Results[name].Status
					rep.Tab("lint_status", st.String())
					if st != lint.Pass && st != lint.Error {
						continue // NE before the lint's effective date / NA: outside this clause
					}
					rep.Inc("validated")
					fails := false
					if sh.cn != "" && o.Cert.Subject.CommonName != "" {
						isIP := refIsIPLiteral(sh.cn)
						if !isIP && !refValidTLD(table, sh.cn, t) {
							fails = true
						}
					}
					for _, s := range sh.sans {
						if !refValidTLD(table, s, t) {
							fails = true
						}
					}
					if fails != (st == lint.Error) {
						rep.Violate("C18|lint|"+fmt.Sprint(fails), fmt.Sprintf("%s=%s but reference says a name fails=%v [CN=%q SAN=%v notBefore=%s; %s delegated %s removed %q]", name, st, fails, sh.cn, sh.sans, t.Format(time.RFC3339), e.Key, e.Deleg, e.Removal),
							map[string]interface{}{"kind": "cert", "der_hex": hex.EncodeToString(b), "cn": sh.cn, "sans": sh.sans, "t": t.Format(time.RFC3339)})
					}
				}
			}
		}
	}
}

func parseIPv4(s string) []byte {
	parts := strings.Split(s, ".")
	if len(parts) != 4 {
		return nil
	}
	out := make([]byte, 4)
	for i, p := range parts {
		v, err := strconv.Atoi(p)
		if err != nil || v < 0 || v > 255 || len(p) > 3 || strings.ContainsAny(p, "+-") || (len(p) > 1 && p[0] == '0') {
			return nil
		}
		out[i] = byte(v)
	}
	return out
}

var c18IPishCNs = []string{"::1", "2001:db8::1", "::ffff:192.0.2.1", "2001:DB8:0:0:0:0:0:1", "0.0.0.0", "255.255.255.255",
	"fe80::1%eth0", "::1%1", "1.2.3", "1.2.3.4.5", "256.1.1.1", "192.0.2.1.", "[::1]", "2001:db8::1::2", "12345::1", "1.2.3.4/32", " 10.1.2.3",
	"10.1.2.3 ", "0x7f.0.0.1", "a.192.0.2.1", "1:2:3:4:5:6:7", "1:2:3:4:5:6:7:8:9", ":1", "2001:db8::g", "192.0.2.-1"}

// refIsIPLiteral: a textual IPv4 address (four decimal octets) or an RFC 4291 IPv6 literal; zone identifiers,
// brackets, prefix lengths and surrounding blanks are not part of an address.
func refIsIPLiteral(s string) bool {
	if parseIPv4(s) != nil {
		return true
	}
	if !strings.Contains(s, ":") || strings.ContainsAny(s, "%[]/ ") {
		return false
	}
	groups := 0
	countGroups := func(part string, last bool) bool {
		if part == "" {
			return true
		}
		gs := strings.Split(part, ":")
		for i, g := range gs {
			if last && i == len(gs)-1 && strings.Contains(g, ".") {
				if parseIPv4(g) == nil {
					return false
				}
				groups += 2
				continue
			}
			if len(g) < 1 || len(g) > 4 {
				return false
			}
			for _, c := range g {
				if !strings.ContainsRune("0123456789abcdefABCDEF", c) {
					return false
				}
			}
			groups++
		}
		return true
	}
	halves := strings.Split(s, "::")
	switch len(halves) {
	case 1:
		return countGroups(halves[0], true) && groups == 8
	case 2:
		return countGroups(halves[0], halves[1] == "") && countGroups(halves[1], true) && groups <= 7
	}
	return false
}
