package oracle

import (
	"encoding/hex"
	"fmt"

	"verif/seeds"
	"verif/xstate"
	"verif/zl"
)

// stateFromReplay rebuilds an X state from its artefact (DER hex + kind).
func stateFromReplay(rp map[string]interface{}) (*xstate.State, error) {
	h, _ := rp["der_hex"].(string)
	b, err := hex.DecodeString(h)
	if err != nil || len(b) == 0 {
		return nil, fmt.Errorf("artefact has no der_hex")
	}
	var k seeds.Kind
	switch rp["kind"] {
	case "cert":
		k = seeds.Cert
	case "crl":
		k = seeds.CRL
	case "ocsp":
		k = seeds.OCSP
	default:
		return nil, fmt.Errorf("artefact has no kind")
	}
	o, err := zl.Parse(k, b)
	if err != nil {
		return nil, err
	}
	name, _ := rp["seed"].(string)
	return &xstate.State{Seed: &seeds.Seed{Name: name, Kind: k, DER: b}, DER: b, Obj: o}, nil
}
