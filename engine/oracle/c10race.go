package oracle

import (
	"fmt"
	"regexp"
	"sort"
	"sync"

	"github.com/zmap/zlint/v3/lint"

	"verif/core"
	"verif/seeds"
	"verif/zl"
)

func init() {
	core.Checks["C10race"] = checkC10race
}

// checkC10race is the free-running complement of the scheduler exploration:
// the same operations from 16 goroutines at once, built with -race by the
// driver. It is a detector, not an enumeration.
func checkC10race(ctx *core.Ctx, rep *core.Report) {
	all := seeds.Load()
	g := lint.GlobalRegistry()
	fr, err := g.Filter(lint.FilterOptions{ExcludeSources: lint.SourceList{lint.RFC5280}})
	if err != nil {
		rep.InternalError("%v", err)
		return
	}
	step := argInt(ctx, "step", 4)
	var work []*seeds.Seed
	for i := range all {
		if i%step == 0 || all[i].Kind != seeds.Cert {
			work = append(work, &all[i])
		}
	}
	const G = 16
	var wg sync.WaitGroup
	var mu sync.Mutex
	mismatch := map[string]bool{}
	// results of the concurrent calls are collected and compared with a sequential reference that is
	// computed AFTERWARDS: a reference computed first would warm every lazily filled cache and hide
	// exactly the unsynchronised writes this pass is looking for
	type obs struct {
		k   int
		vec string
	}
	observed := make([][]obs, 16) // one slice per goroutine: no shared lock that would order the goroutines
	for w := 0; w < G; w++ {
		w := w
		wg.Add(1)
		go func() {
			defer wg.Done()
			defer func() {
				if r := recover(); r != nil {
					mu.Lock()
					mismatch[fmt.Sprintf("PANIC %v", r)] = true
					mu.Unlock()
				}
			}()
			for i := w; i < len(work)+G; i++ {
				k := i % len(work)
				sd := work[k]
				o, err := zl.Parse(sd.Kind, sd.DER)
				if err != nil {
					continue
				}
				switch (i + w) % 5 {
				case 0, 1, 2:
					rs, p := zl.Lint(o, g)
					v := "PANIC"
					if p == nil {
						v = zl.Vector(rs, true)
					}
					observed[w] = append(observed[w], obs{k, v})
				case 3:
					zl.Lint(o, fr)
					if _, err := g.Filter(lint.FilterOptions{NameFilter: regexp.MustCompile("^w_")}); err != nil {
						mu.Lock()
						mismatch["filter error"] = true
						mu.Unlock()
					}
				default:
					_ = g.Names()
					s := g.Sources()
					sort.Sort(s)
					_ = g.ByName("e_basic_constraints_not_critical")
					_ = g.BySource(lint.RFC5280)
					_, _ = g.DefaultConfiguration()
					zl.Lint(o, g)
				}
			}
		}()
	}
	wg.Wait()
	ref := make([]string, len(work))
	for i, sd := range work {
		o, err := zl.Parse(sd.Kind, sd.DER)
		if err != nil {
			continue
		}
		rs, _ := zl.Lint(o, g)
		ref[i] = zl.Vector(rs, true)
	}
	for _, l := range observed {
		for _, ob := range l {
			if ob.vec != ref[ob.k] {
				mismatch[work[ob.k].Name] = true
			}
		}
	}
	rep.Add("states", int64(len(work)*G))
	rep.Add("validated", int64(len(work)*G))
	for m := range mismatch {
		rep.Violate("C10|free_running|result_differs", "a concurrent call returned something else than the same call made alone: "+m, map[string]interface{}{"op": "free_running", "object": m})
	}
}
