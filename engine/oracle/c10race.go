package oracle

import (
	"fmt"
	"strings"
	"io"
	"regexp"
	"sort"
	"sync"

	"github.com/zmap/zlint/v3/lint"

	"verif/core"
	"verif/seeds"
	"verif/zl"
)

func init() {
	core.Checks["C10race"] = checkC10race
}

// checkC10race is the free-running complement of the scheduler exploration:
// the same operations from 16 goroutines at once, built with -race by the
// driver. It is a detector, not an enumeration.
func checkC10race(ctx *core.Ctx, rep *core.Report) {
	g := lint.GlobalRegistry()
	if name := ctx.Args["cold"]; name != "" {
		c10raceCold(rep, seeds.LoadNamed(name), g, name)
		return
	}
	all := seeds.Load()
	fr, err := g.Filter(lint.FilterOptions{ExcludeSources: lint.SourceList{lint.RFC5280}})
	if err != nil {
		rep.InternalError("%v", err)
		return
	}
	step := argInt(ctx, "step", 4)
	var work []*seeds.Seed
	for i := range all {
		if i%step == 0 || all[i].Kind != seeds.Cert {
			work = append(work, &all[i])
		}
	}
	// … and the wide-serial variants of the CRLs / OCSP responses (entry serials that do not fit a machine word)
	var wide []seeds.Seed
	for i := range all {
		if all[i].Kind != seeds.Cert {
			if w := wideSerials(all[i].Kind, all[i].DER); w != nil {
				wide = append(wide, seeds.Seed{Name: all[i].Name + "+wide-serials", Kind: all[i].Kind, DER: w})
			}
		}
	}
	for i := range wide {
		work = append(work, &wide[i])
	}
	const G = 16
	var wg sync.WaitGroup
	var mu sync.Mutex
	mismatch := map[string]bool{}
	// results of the concurrent calls are collected and compared with a sequential reference that is
	// computed AFTERWARDS: a reference computed first would warm every lazily filled cache and hide
	// exactly the unsynchronised writes this pass is looking for
	type obs struct {
		k   int
		vec string
	}
	observed := make([][]obs, 16) // one slice per goroutine: no shared lock that would order the goroutines
	type filterObs struct {
		second lint.LintSource
		names  string
	}
	var filterSeen []filterObs
	for w := 0; w < G; w++ {
		w := w
		wg.Add(1)
		go func() {
			defer wg.Done()
			defer func() {
				if r := recover(); r != nil {
					mu.Lock()
					mismatch[fmt.Sprintf("PANIC %v", r)] = true
					mu.Unlock()
				}
			}()
			for i := w; i < len(work)+G; i++ {
				k := i % len(work)
				sd := work[k]
				o, err := zl.Parse(sd.Kind, sd.DER)
				if err != nil {
					continue
				}
				switch (i + w) % 5 {
				case 0, 1, 2:
					rs, p := zl.Lint(o, g)
					v := "PANIC"
					if p == nil {
						v = zl.Vector(rs, true)
					}
					observed[w] = append(observed[w], obs{k, v})
				case 3:
					zl.Lint(o, fr)
					// overlapping source lists from every goroutine: [A, x] with the same first source and a rotating second one
					srcsAll := sortedSources(g)
					if fr2, err := g.Filter(lint.FilterOptions{IncludeSources: lint.SourceList{lint.CABFBaselineRequirements, srcsAll[(i+w)%len(srcsAll)]}}); err == nil {
						got := fr2.Names()
						mu.Lock()
						filterSeen = append(filterSeen, filterObs{srcsAll[(i+w)%len(srcsAll)], strings.Join(got, ",")})
						mu.Unlock()
					}
					if _, err := g.Filter(lint.FilterOptions{NameFilter: regexp.MustCompile("^w_")}); err != nil {
						mu.Lock()
						mismatch["filter error"] = true
						mu.Unlock()
					}
				default:
					_ = g.Names()
					s := g.Sources()
					sort.Sort(s)
					_ = g.ByName("e_basic_constraints_not_critical")
					_ = g.BySource(lint.RFC5280)
					_, _ = g.DefaultConfiguration()
					g.WriteJSON(io.Discard)
					fr.WriteJSON(io.Discard)
					zl.Lint(o, g)
				}
			}
		}()
	}
	wg.Wait()
	ref := make([]string, len(work))
	for i, sd := range work {
		o, err := zl.Parse(sd.Kind, sd.DER)
		if err != nil {
			continue
		}
		rs, _ := zl.Lint(o, g)
		ref[i] = zl.Vector(rs, true)
	}
	for _, l := range observed {
		for _, ob := range l {
			if ob.vec != ref[ob.k] {
				mismatch[work[ob.k].Name] = true
			}
		}
	}
	// every concurrent Filter([CABF_BR, x]) must have selected what the same call selects alone
	alone := map[lint.LintSource]string{}
	for _, fo := range filterSeen {
		if _, ok := alone[fo.second]; !ok {
			if r, err := g.Filter(lint.FilterOptions{IncludeSources: lint.SourceList{lint.CABFBaselineRequirements, fo.second}}); err == nil {
				alone[fo.second] = strings.Join(r.Names(), ",")
			}
		}
		if alone[fo.second] != fo.names {
			mismatch[fmt.Sprintf("Filter(IncludeSources [CABF_BR %s])", fo.second)] = true
		}
	}
	rep.Add("states", int64(len(work)*G))
	rep.Add("validated", int64(len(work)*G))
	for m := range mismatch {
		rep.Violate("C10|free_running|result_differs", "a concurrent call returned something else than the same call made alone: "+m, map[string]interface{}{"op": "free_running", "object": m})
	}
}

// c10raceCold: the cold-start variant. Nothing has been linted in this process; 16 goroutines wait at a
// barrier and then all lint (their own parse of) the SAME object at once, so they run through the same
// lazily initialised state at the same moment — where a first-use race sits. The sequential reference is
// computed afterwards.
func c10raceCold(rep *core.Report, all []seeds.Seed, g lint.Registry, name string) {
	var sd *seeds.Seed
	for i := range all {
		if all[i].Name == name {
			sd = &all[i]
		}
	}
	if sd == nil {
		rep.InternalError("cold-start object %q not found", name)
		return
	}
	const G = 16
	objs := make([]*zl.Obj, G)
	for i := range objs {
		o, err := zl.Parse(sd.Kind, sd.DER)
		if err != nil {
			return
		}
		objs[i] = o
	}
	start := make(chan struct{})
	var wg sync.WaitGroup
	got := make([]string, G)
	for w := 0; w < G; w++ {
		w := w
		wg.Add(1)
		go func() {
			defer wg.Done()
			defer func() {
				if r := recover(); r != nil {
					got[w] = fmt.Sprintf("PANIC %v", r)
				}
			}()
			<-start
			switch w % 8 {
			case 3: // the process's first listing / WriteJSON runs next to the first lint runs
				_ = g.Names()
				_ = g.Sources()
				g.WriteJSON(io.Discard)
				_, _ = g.DefaultConfiguration()
			case 5: // … and its first Filter
				if fr, err := g.Filter(lint.FilterOptions{NameFilter: regexp.MustCompile("^[ew]_")}); err == nil {
					fr.WriteJSON(io.Discard)
				}
			}
			rs, p := zl.Lint(objs[w], g)
			if p != nil {
				got[w] = fmt.Sprintf("PANIC %v", p)
				return
			}
			got[w] = zl.Vector(rs, true)
		}()
	}
	close(start)
	wg.Wait()
	o, _ := zl.Parse(sd.Kind, sd.DER)
	rs, _ := zl.Lint(o, g)
	ref := zl.Vector(rs, true)
	rep.Add("states", G)
	rep.Add("validated", G)
	for w := range got {
		if got[w] != ref {
			rep.Violate("C10|free_running|cold_start_result_differs", "in a fresh process, one of 16 simultaneous first calls returned something else than the same call made alone: "+name,
				map[string]interface{}{"op": "free_running_cold", "object": name})
			break
		}
	}
}
