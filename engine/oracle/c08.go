package oracle

import (
	"fmt"
	"reflect"
	"regexp"
	"sort"
	"strings"

	"github.com/zmap/zlint/v3/lint"

	"verif/core"
)

func init() {
	core.Checks["C08"] = checkC08
}

type optAxis struct {
	desc string
	opt  lint.FilterOptions
}

func descOpts(o lint.FilterOptions) string {
	nf := "nil"
	if o.NameFilter != nil {
		nf = o.NameFilter.String()
	}
	f := func(l []string) string {
		if l == nil {
			return "nil"
		}
		return fmt.Sprintf("%q", l)
	}
	g := func(l lint.SourceList) string {
		if l == nil {
			return "nil"
		}
		return fmt.Sprintf("%v", []lint.LintSource(l))
	}
	return fmt.Sprintf("ExcludeSources=%s IncludeSources=%s NameFilter=%s ExcludeNames=%s IncludeNames=%s", g(o.ExcludeSources), g(o.IncludeSources), nf, f(o.ExcludeNames), f(o.IncludeNames))
}

// c08One filters parent with o and compares everything observable with the model.
func c08One(rep *core.Report, parent lint.Registry, pdesc []lintDesc, o lint.FilterOptions, chain string) (lint.Registry, []lintDesc) {
	want, wantErr := refFilter(pdesc, o)
	before := snapshotRegistry(parent)
	cfgBefore := parent.GetConfiguration()
	var r lint.Registry
	var err error
	var pan interface{}
	func() {
		defer func() { pan = recover() }()
		r, err = parent.Filter(o)
	}()
	rep.Inc("states")
	rep.Inc("transitions")
	rep.Inc("validated")
	art := map[string]interface{}{"op": "filter", "options": chain + descOpts(o)}
	v := func(k, w string) { rep.Violate("C08|"+k, w+" ["+chain+descOpts(o)+"]", art) }
	if pan != nil {
		v("panic", fmt.Sprintf("Filter panicked: %v", pan))
		return nil, nil
	}
	if wantErr != (err != nil) {
		if wantErr {
			v("error_missing", "options must be rejected (unknown name, or NameFilter with name lists) but were accepted")
		} else {
			v("error_unexpected", "options are valid but were rejected: "+err.Error())
		}
		return nil, nil
	}
	// source registry untouched
	after := snapshotRegistry(parent)
	if !reflect.DeepEqual(descKeys(before), descKeys(after)) || parent.GetConfiguration() != cfgBefore {
		v("parent_changed", "the source registry was changed by Filter")
	}
	if err != nil {
		rep.Inc("rejected_as_modelled")
		if r != nil && !reflect.ValueOf(r).IsNil() {
			v("registry_with_error", "a registry was returned together with an error")
		}
		return nil, nil
	}
	if o.Empty() {
		if r != parent {
			v("empty_not_identity", "empty options did not return the registry itself")
		}
		return r, pdesc
	}
	if r == nil {
		v("nil_registry", "nil registry without error")
		return nil, nil
	}
	for _, b := range compareRegistry(r, want) {
		k := "selection"
		switch {
		case strings.Contains(b, "altered metadata"):
			k = "identity"
		case strings.Contains(b, "BySource"), strings.Contains(b, "ByName"), strings.Contains(b, "Sources()"), strings.Contains(b, "another kind"):
			k = "lookup"
		}
		v(k, b)
	}
	if r.GetConfiguration() != parent.GetConfiguration() {
		v("configuration_not_inherited", "filtered registry does not carry the source registry's configuration")
	}
	// two-step sequence: the filtered registry is a registry of its own — configuring IT is not a change of
	// the source registry ("the source registry is left unchanged" holds after the call returned, too)
	if marker, merr := lint.NewConfigFromString("[verif_marker]\nx = 1\n"); merr == nil {
		saved := parent.GetConfiguration()
		r.SetConfiguration(marker)
		if parent.GetConfiguration() != saved {
			v("parent_changed_through_result", "configuring the registry returned by Filter (non-empty options) changed the source registry's configuration: the result aliases its source")
			parent.SetConfiguration(saved)
		}
		r.SetConfiguration(saved)
	}
	rep.SetAddHash("distinct_selections", core.HashStr(strings.Join(namesOf(want), ",")))
	return r, want
}

func descKeys(d []lintDesc) []string {
	out := make([]string, len(d))
	for i, x := range d {
		out[i] = x.Kind + "|" + x.Name + "|" + string(x.Source) + "|" + x.Meta.Description + "|" + x.Meta.Citation
	}
	sort.Strings(out)
	return out
}

func namesOf(d []lintDesc) []string {
	out := make([]string, len(d))
	for i, x := range d {
		out[i] = x.Name
	}
	sort.Strings(out)
	return out
}

func c08Axes() (exS, inS []lint.SourceList, nfs []*regexp.Regexp, incN, excN [][]string, srcs lint.SourceList) {
	g := lint.GlobalRegistry()
	srcs = sortedSources(g)
	A, B := lint.CABFBaselineRequirements, lint.RFC5280
	// a known source constant that has no lints in the registry
	var lone lint.LintSource = lint.RFC3279
	have := map[lint.LintSource]bool{}
	for _, s := range srcs {
		have[s] = true
	}
	for _, c := range []lint.LintSource{lint.RFC3279, lint.RFC5480, lint.RFC5891, lint.RFC6962, lint.RFC8813} {
		if !have[c] {
			lone = c
			break
		}
	}
	sl := []lint.SourceList{nil, {}, {A}, {B}, {A, B}, {lone}, {lint.UnknownLintSource}}
	exS, inS = sl, sl
	cert := g.CertificateLints().Lints()[0].Name
	cert2 := g.CertificateLints().Lints()[len(g.CertificateLints().Lints())/2].Name
	crl, ocsp := "", ""
	if l := g.RevocationListLints().Lints(); len(l) > 0 {
		crl = l[0].Name
	}
	if l := g.OcspResponseLints().Lints(); len(l) > 0 {
		ocsp = l[0].Name
	}
	nfs = []*regexp.Regexp{nil, regexp.MustCompile(`^e_`), regexp.MustCompile(`.*`), regexp.MustCompile(`$^`), regexp.MustCompile(`crl`),
		regexp.MustCompile(regexp.QuoteMeta(cert2)), regexp.MustCompile(`ocsp|this_update`)}
	// (a known name in another case is an unknown name: names are compared after trimming, nothing else)
	lists := [][]string{nil, {}, {cert}, {crl}, {ocsp}, {" " + cert2 + "\t"}, {cert, cert}, {cert, cert2}, {"e_no_such_lint"}, {cert, "e_no_such_lint"}, {""}, {crl, ocsp, cert},
		{strings.ToUpper(cert)}, {cert, strings.ToUpper(cert2[:1]) + cert2[1:]}}
	var clean [][]string
	for _, l := range lists {
		ok := true
		for _, n := range l {
			if n == "" && len(l) > 1 {
				ok = false // a kind without lints in this tree
			}
		}
		if ok {
			clean = append(clean, l)
		}
	}
	incN, excN = clean, clean
	return
}

func checkC08(ctx *core.Ctx, rep *core.Report) {
	g := lint.GlobalRegistry()
	gdesc := snapshotRegistry(g)
	exS, inS, nfs, incN, excN, srcs := c08Axes()
	rep.Add("g_registry_lints", int64(len(gdesc)))
	idx := uint64(0)
	// full product of the five axes
	for _, es := range exS {
		for _, is := range inS {
			for _, nf := range nfs {
				for _, in := range incN {
					for _, en := range excN {
						idx++
						if !ctx.Mine(idx) {
							continue
						}
						o := lint.FilterOptions{ExcludeSources: es, IncludeSources: is, NameFilter: nf, IncludeNames: in, ExcludeNames: en}
						c08One(rep, g, gdesc, o, "")
						rep.Sample(3, descOpts(o))
					}
				}
			}
		}
	}
	// every ordered pair of registered sources (and singletons) on the source axes
	for _, a := range srcs {
		for _, b := range srcs {
			idx++
			if !ctx.Mine(idx) {
				continue
			}
			for _, o := range []lint.FilterOptions{
				{ExcludeSources: lint.SourceList{a}, IncludeSources: lint.SourceList{b}},
				{ExcludeSources: lint.SourceList{a, b}},
				{IncludeSources: lint.SourceList{a, b}},
				{IncludeSources: lint.SourceList{a, b}, NameFilter: regexp.MustCompile(`^w_`)},
			} {
				c08One(rep, g, gdesc, o, "")
			}
		}
	}
	// every registered name as include / exclude singleton, with stray blanks
	for _, d := range gdesc {
		idx++
		if !ctx.Mine(idx) {
			continue
		}
		c08One(rep, g, gdesc, lint.FilterOptions{IncludeNames: []string{d.Name}}, "")
		c08One(rep, g, gdesc, lint.FilterOptions{ExcludeNames: []string{"\t" + d.Name + " \n"}}, "")
	}
	// depth-2 chains over a reduced alphabet, from a parent that carries a configuration
	red := []lint.FilterOptions{
		{}, {IncludeSources: lint.SourceList{lint.CABFBaselineRequirements}}, {ExcludeSources: lint.SourceList{lint.RFC5280}},
		{NameFilter: regexp.MustCompile(`^e_`)}, {NameFilter: regexp.MustCompile(`crl|ocsp`)},
		{IncludeNames: incN[2]}, {ExcludeNames: incN[2]}, {IncludeNames: incN[len(incN)-1]}, {ExcludeNames: []string{"e_no_such_lint"}},
		{IncludeSources: lint.SourceList{lint.RFC5280, lint.Community}, ExcludeNames: incN[7]},
	}
	cfg, _ := lint.NewConfigFromString("[e_rsa_fermat_factorization]\nRounds = 7\n")
	for i, o1 := range red {
		for j, o2 := range red {
			idx++
			if !ctx.Mine(idx) {
				continue
			}
			r1, d1 := c08One(rep, g, gdesc, o1, "")
			if r1 == nil {
				continue
			}
			if r1 != g {
				r1.SetConfiguration(cfg)
			}
			r2, d2 := c08One(rep, r1, d1, o2, fmt.Sprintf("chain[%d] %s ⇒ ", i, descOpts(o1)))
			if r2 != nil && j%3 == 0 {
				c08One(rep, r2, d2, red[(i+j)%len(red)], fmt.Sprintf("chain[%d,%d] ⇒ ", i, j))
			}
			rep.Inc("chains")
		}
	}
	c08ConfigHistories(ctx, rep, g, gdesc, &idx)
	// Filter from every state of the registry, not only the start-up one (reghist.go)
	regHistories(ctx, rep, "C08", map[string]bool{"filter": true}, regHistDepth(ctx))
}

// c08ConfigHistories: "inherits the configuration" from every state of the source registry, not only its first one.
// Every history of ≤ depth operations over
//
//	f0 f1 f2   parent.Filter(o_i) (three fixed option sets — the same options come back within a history)
//	p1 p2      parent.SetConfiguration(c1 / c2)
//	rc         (last result).SetConfiguration(marker)
//
// on a parent registry of its own (a full copy of the global registry obtained through an always-true name pattern that
// is different for every history, so that no two histories share anything the implementation could key on). After every
// f_i: the result carries the parent's *current* configuration and selects what the model says; after every operation the
// parent still carries what the model says it carries and every result obtained earlier still carries what it was given.
func c08ConfigHistories(ctx *core.Ctx, rep *core.Report, g lint.Registry, gdesc []lintDesc, idx *uint64) {
	c1, e1 := lint.NewConfigFromString("[e_rsa_fermat_factorization]\nRounds = 11\n")
	c2, e2 := lint.NewConfigFromString("[e_rsa_fermat_factorization]\nRounds = 12\n")
	marker, e3 := lint.NewConfigFromString("[verif_marker]\nx = 2\n")
	if e1 != nil || e2 != nil || e3 != nil {
		rep.InternalError("C08 configuration histories: configurations do not parse")
		return
	}
	cert := g.CertificateLints().Lints()[0].Name
	opts := []lint.FilterOptions{
		{IncludeSources: lint.SourceList{lint.CABFBaselineRequirements}},
		{NameFilter: regexp.MustCompile(`^e_`)},
		{IncludeNames: []string{cert}, ExcludeSources: lint.SourceList{lint.UnknownLintSource}},
	}
	A := []string{"f0", "f1", "f2", "p1", "p2", "rc"}
	depth := 4
	if !ctx.Quick() {
		depth = 5
	}
	total := 1
	for i := 0; i < depth; i++ {
		total *= len(A)
	}
	type held struct {
		r    lint.Registry
		cfg  lint.Configuration
		desc string
	}
	for n := 0; n < total; n++ {
		*idx++
		if !ctx.Mine(*idx) {
			continue
		}
		if ctx.Expired() {
			rep.Cap("C08 configuration histories: deadline reached at history %d of %d", n, total)
			return
		}
		ops := make([]string, depth)
		k := n
		for i := depth - 1; i >= 0; i-- {
			ops[i] = A[k%len(A)]
			k /= len(A)
		}
		parent, err := g.Filter(lint.FilterOptions{NameFilter: regexp.MustCompile(fmt.Sprintf(".*|^zz_history_%d$", n))})
		if err != nil || parent == nil {
			rep.InternalError("C08 configuration histories: full copy of the global registry refused: %v", err)
			return
		}
		pcfg := parent.GetConfiguration()
		var results []held
		art := map[string]interface{}{"op": "config_history", "ops": ops}
		for i, op := range ops {
			v := func(key, what string) {
				rep.Violate("C08|config_history|"+key, fmt.Sprintf("%s [history %v on a full copy of the global registry, step %d]", what, ops[:i+1], i+1), art)
			}
			switch op[0] {
			case 'f':
				o := opts[op[1]-'0']
				want, _ := refFilter(gdesc, o)
				r, err := parent.Filter(o)
				rep.Inc("validated")
				if err != nil || r == nil {
					v("error_unexpected", "valid options rejected")
					break
				}
				if r.GetConfiguration() != pcfg {
					v("configuration_not_inherited", "the filtered registry does not carry the configuration its source registry has at the time of the call ("+descOpts(o)+")")
				}
				for _, b := range compareRegistry(r, want) {
					v("selection", b)
				}
				results = append(results, held{r, pcfg, descOpts(o)})
			case 'p':
				if op[1] == '1' {
					pcfg = c1
				} else {
					pcfg = c2
				}
				parent.SetConfiguration(pcfg)
			case 'r':
				if len(results) > 0 {
					results[len(results)-1].r.SetConfiguration(marker)
					results[len(results)-1].cfg = marker
				}
			}
			rep.Inc("transitions")
			if parent.GetConfiguration() != pcfg {
				v("parent_changed", "the source registry's configuration is not the one it was last given")
				pcfg = parent.GetConfiguration()
			}
			// a registry handed out earlier is a registry of its own: it keeps what it inherited / was given —
			// unless the implementation hands the same registry out twice, in which case "inherits" has already failed
			for j := range results {
				if results[j].r.GetConfiguration() != results[j].cfg {
					same := false
					for l := range results {
						if l != j && results[l].r == results[j].r {
							same = true
						}
					}
					if same {
						v("result_shared", "two Filter calls returned the same registry object, so configuring one result (or the source in between) shows through the other")
					} else {
						v("result_changed_later", "a registry returned earlier by Filter ("+results[j].desc+") changed its configuration without being configured")
					}
					results[j].cfg = results[j].r.GetConfiguration()
				}
			}
		}
		rep.Inc("states")
		rep.Inc("config_histories")
	}
}
