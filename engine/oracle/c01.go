package oracle

import (
	"fmt"
	"sort"
	"strings"

	"github.com/zmap/zcrypto/x509"
	"github.com/zmap/zlint/v3"
	"github.com/zmap/zlint/v3/lint"
	"golang.org/x/crypto/ocsp"

	"verif/core"
	"verif/seeds"
	"verif/xstate"
	"verif/zl"
)

func init() {
	core.Checks["C01"] = checkC01
	core.Replayers["C01"] = replayC01
}

// rsInvariant is the C01 oracle for one (object, registry) run. It returns a
// list of (key, what) for every clause of the property that fails.
func rsInvariant(o *zl.Obj, reg lint.Registry, rs *zlint.ResultSet, panicked interface{}) [][2]string {
	var bad [][2]string
	add := func(k, w string) { bad = append(bad, [2]string{k, w}) }
	kind := o.Kind.String()
	if panicked != nil {
		add("C01|"+kind+"|panic_reaches_caller", fmt.Sprintf("panic reached the caller: %v", panicked))
		return bad
	}
	if rs == nil {
		add("C01|"+kind+"|nil_resultset", "nil result set for a non-nil object")
		return bad
	}
	want := zl.KindNames(o.Kind, reg)
	wantSet := map[string]bool{}
	for _, n := range want {
		wantSet[n] = true
	}
	for _, n := range want {
		r, ok := rs.Results[n]
		if !ok {
			add("C01|"+kind+"|missing_result", "no result for registered lint "+n)
			continue
		}
		if r == nil {
			add("C01|"+kind+"|nil_result", "nil result for "+n)
			continue
		}
		meta, _ := zl.Meta(o.Kind, reg, n)
		if r.LintMetadata != meta {
			add("C01|"+kind+"|metadata_mismatch", fmt.Sprintf("result of %s carries metadata of %q", n, r.LintMetadata.Name))
		}
		if r.Status < lint.NA || r.Status > lint.Fatal {
			add("C01|"+kind+"|status_out_of_range|"+n, fmt.Sprintf("%s returned status %d", n, int(r.Status)))
		}
	}
	for n := range rs.Results {
		if !wantSet[n] {
			add("C01|"+kind+"|extra_result", "result for "+n+" which is not a "+kind+" lint of the registry used")
		}
	}
	var nt, wn, er, ft bool
	for _, r := range rs.Results {
		if r == nil {
			continue
		}
		switch r.Status {
		case lint.Notice:
			nt = true
		case lint.Warn:
			wn = true
		case lint.Error:
			er = true
		case lint.Fatal:
			ft = true
		}
	}
	if rs.NoticesPresent != nt {
		add("C01|"+kind+"|flag_notices", fmt.Sprintf("NoticesPresent=%v but ∃info=%v", rs.NoticesPresent, nt))
	}
	if rs.WarningsPresent != wn {
		add("C01|"+kind+"|flag_warnings", fmt.Sprintf("WarningsPresent=%v but ∃warn=%v", rs.WarningsPresent, wn))
	}
	if rs.ErrorsPresent != er {
		add("C01|"+kind+"|flag_errors", fmt.Sprintf("ErrorsPresent=%v but ∃error=%v", rs.ErrorsPresent, er))
	}
	if rs.FatalsPresent != ft {
		add("C01|"+kind+"|flag_fatals", fmt.Sprintf("FatalsPresent=%v but ∃fatal=%v", rs.FatalsPresent, ft))
	}
	if rs.Version != 3 || rs.Version != zlint.Version {
		add("C01|"+kind+"|version", fmt.Sprintf("Version=%d, library major version 3 (const %d)", rs.Version, zlint.Version))
	}
	return bad
}

type cfgCase struct {
	Name string
	TOML string
}

// configFamily: empty, generated default, one ill-typed section per
// configurable lint (discovered at run time).
func configFamily() []cfgCase {
	out := []cfgCase{{"empty", ""}}
	if b, err := lint.GlobalRegistry().DefaultConfiguration(); err == nil {
		out = append(out, cfgCase{"default", string(b)})
	}
	for _, n := range ConfigurableLints() {
		out = append(out, cfgCase{"illtyped:" + n, "[" + n + "]\nRounds = \"x\"\nPsuOrganizationUnitAllowed = 7\nCheckHTMLEntities = [1]\nSkip = {a=1}\n"})
		out = append(out, cfgCase{"scalar:" + n, n + " = 5\n"})
	}
	return out
}

func lintWithConfig(o *zl.Obj, nr NamedReg, c cfgCase) (*zlint.ResultSet, interface{}, lint.Registry, error) {
	cfg, err := lint.NewConfigFromString(c.TOML)
	if err != nil {
		return nil, nil, nil, err
	}
	reg := nr.Reg
	if nr.Name == "global" {
		// never touch the global registry's configuration: an all-selecting copy
		r, err := lint.GlobalRegistry().Filter(lint.FilterOptions{ExcludeSources: lint.SourceList{lint.UnknownLintSource}})
		if err != nil {
			return nil, nil, nil, err
		}
		reg = r
	} else {
		r, err := lint.GlobalRegistry().Filter(nr.Opts)
		if err != nil {
			return nil, nil, nil, err
		}
		reg = r
	}
	reg.SetConfiguration(cfg)
	rs, p := zl.Lint(o, reg)
	return rs, p, reg, nil
}

func checkC01(ctx *core.Ctx, rep *core.Report) {
	all := seeds.Load()
	rep.Add("seeds_total", int64(len(all)))
	regs := RegistryFamily()
	cfgs := configFamily()
	nth := 8
	if !ctx.Quick() {
		nth = 1
	}
	nth = argInt(ctx, "nth", nth)
	sel := pickSeeds(all, nth)
	rep.Add("seeds_used", int64(len(sel)))
	rep.Add("registries", int64(len(regs)))
	rep.Add("configurations", int64(len(cfgs)))
	// registries used on depth-1 states
	d1regs := []NamedReg{regs[0]}
	for _, r := range regs {
		switch r.Name {
		case "name:^e_", "name:^w_", "name:$^", "exclude:CABF_BR":
			d1regs = append(d1regs, r)
		}
	}
	report := func(st *xstate.State, regName, cfgName string, bad [][2]string) {
		for _, b := range bad {
			rp := st.Replay()
			rp["registry"], rp["config"] = regName, cfgName
			rep.Violate(b[0], b[1]+" [seed "+st.Seed.Name+" path "+strings.Join(st.Path, ",")+" registry "+regName+" config "+cfgName+"]", rp)
		}
	}
	cfgByName := map[string]cfgCase{}
	for _, c := range cfgs {
		cfgByName[c.Name] = c
	}
	xstate.Explore(ctx, rep, xstate.Options{Seeds: sel, Depth: 1}, func(st *xstate.State) {
		// depth-1 states: the global registry and one of the four filtered ones, dealt by state key
		use := []NamedReg{d1regs[0], d1regs[1+int(st.Hash>>8)%(len(d1regs)-1)]}
		if len(st.Path) == 0 {
			use = regs
		}
		for _, nr := range use {
			rs, p := zl.Lint(st.Obj, nr.Reg)
			rep.Inc("runs")
			rep.Inc("validated")
			report(st, nr.Name, "empty", rsInvariant(st.Obj, nr.Reg, rs, p))
			if nr.Name == "global" && rs != nil {
				rep.SetAddHash("result_vectors", core.HashStr(zl.Vector(rs, false)))
				for n, r := range rs.Results {
					if r != nil {
						rep.Tab("lint_outcome", n+"|"+r.Status.String())
					}
				}
			}
		}
		if len(st.Path) == 0 {
			// configurations × {global, one filtered} on the seeds themselves
			for _, c := range cfgs[1:] {
				for _, nr := range []NamedReg{regs[0], d1regs[1]} {
					rs, p, reg, err := lintWithConfig(st.Obj, nr, c)
					if err != nil {
						rep.InternalError("config %s: %v", c.Name, err)
						continue
					}
					rep.Inc("runs")
					rep.Inc("validated")
					report(st, nr.Name, c.Name, rsInvariant(st.Obj, reg, rs, p))
				}
			}
		}
		rep.Sample(3, map[string]interface{}{"seed": st.Seed.Name, "path": st.Path, "bytes": len(st.DER)})
	})
	// revocation lists over the entry-list product (common.go), under the global registry and the filtered ones
	{
		maxLen := 2
		if !ctx.Quick() {
			maxLen = 3
		}
		n := crlEntryStates(ctx, all, maxLen, func(st *xstate.State) {
			rep.Inc("states")
			rep.Inc("transitions")
			for _, nr := range []NamedReg{d1regs[0], d1regs[1+int(st.Hash>>8)%(len(d1regs)-1)]} {
				rs, p := zl.Lint(st.Obj, nr.Reg)
				rep.Inc("runs")
				rep.Inc("validated")
				report(st, nr.Name, "empty", rsInvariant(st.Obj, nr.Reg, rs, p))
				if nr.Name == "global" && rs != nil {
					for name, r := range rs.Results {
						if r != nil {
							rep.Tab("lint_outcome", name+"|"+r.Status.String())
						}
					}
				}
			}
		})
		rep.Add("crl_entry_list_states", int64(n))
	}
	// nil object / nil registry clauses, once
	if ctx.Shard == 0 {
		if zlint.LintCertificateEx(nil, nil) != nil || zlint.LintRevocationListEx(nil, nil) != nil || zlint.LintOcspResponseEx(nil, nil) != nil {
			rep.Violate("C01|nil_object", "Lint*Ex(nil) is not nil", map[string]interface{}{"op": "nil_object"})
		}
		c01Mocks(ctx, rep, sel)
	}
	// coverage holes: lints never judged
	if ctx.NShards == 1 {
		judgedHoles(rep)
	}
}

func judgedHoles(rep *core.Report) {
	judged := map[string]bool{}
	for cell := range rep.Tables["lint_outcome"] {
		i := strings.LastIndexByte(cell, '|')
		switch cell[i+1:] {
		case "pass", "info", "warn", "error":
			judged[cell[:i]] = true
		}
	}
	for _, n := range lint.GlobalRegistry().Names() {
		if !judged[n] {
			rep.Hole("lint %s never judged (pass/info/warn/error) in this run", n)
		}
	}
}

// ---- mock lints: every mix of result statuses, all three kinds ------------

type mockCert struct{ st lint.LintStatus }

func (m mockCert) CheckApplies(*x509.Certificate) bool {
	if m.st == 98 {
		panic("verif mock panic in CheckApplies")
	}
	return true
}
func (m mockCert) Execute(*x509.Certificate) *lint.LintResult {
	if m.st == 99 {
		panic("verif mock panic")
	}
	return &lint.LintResult{Status: m.st, Details: "mock"}
}

// mockCertCfg is Configurable and panics while handing out its configuration target.
type mockCertCfg struct{ mockCert }

func (m mockCertCfg) Configure() interface{} { panic("verif mock panic in Configure") }

// panicPhases: where in the life-cycle of a certificate lint the mock panics. "No panic reaches the
// caller" holds for each of them on a certificate (the deferred recover wraps the whole life-cycle).
var panicPhases = []int{99 /* Execute */, 98 /* CheckApplies */, 97 /* constructor */, 96 /* Configure */}

type mockCRL struct{ st lint.LintStatus }

func (m mockCRL) CheckApplies(*x509.RevocationList) bool { return true }
func (m mockCRL) Execute(*x509.RevocationList) *lint.LintResult {
	return &lint.LintResult{Status: m.st, Details: "mock"}
}

type mockOCSP struct{ st lint.LintStatus }

func (m mockOCSP) CheckApplies(*ocsp.Response) bool { return true }
func (m mockOCSP) Execute(*ocsp.Response) *lint.LintResult {
	return &lint.LintResult{Status: m.st, Details: "mock"}
}

var mocksRegistered, mockCtorPanics bool

func mockName(kind string, st int) string { return fmt.Sprintf("n_zz_verifmock_%s_%d", kind, st) }

func registerMocks() {
	if mocksRegistered {
		return
	}
	mocksRegistered = true
	for st := 1; st <= 7; st++ {
		s := lint.LintStatus(st)
		lint.RegisterCertificateLint(&lint.CertificateLint{LintMetadata: lint.LintMetadata{Name: mockName("cert", st), Description: "mock", Source: lint.Community},
			Lint: func() lint.CertificateLintInterface { return mockCert{s} }})
		lint.RegisterRevocationListLint(&lint.RevocationListLint{LintMetadata: lint.LintMetadata{Name: mockName("crl", st), Description: "mock", Source: lint.Community},
			Lint: func() lint.RevocationListLintInterface { return mockCRL{s} }})
		lint.RegisterOcspResponseLint(&lint.OcspResponseLint{LintMetadata: lint.LintMetadata{Name: mockName("ocsp", st), Description: "mock", Source: lint.Community},
			Lint: func() lint.OcspResponseLintInterface { return mockOCSP{s} }})
	}
	lint.RegisterCertificateLint(&lint.CertificateLint{LintMetadata: lint.LintMetadata{Name: mockName("cert", 99), Description: "mock", Source: lint.Community},
		Lint: func() lint.CertificateLintInterface { return mockCert{99} }})
	lint.RegisterCertificateLint(&lint.CertificateLint{LintMetadata: lint.LintMetadata{Name: mockName("cert", 98), Description: "mock", Source: lint.Community},
		Lint: func() lint.CertificateLintInterface { return mockCert{98} }})
	lint.RegisterCertificateLint(&lint.CertificateLint{LintMetadata: lint.LintMetadata{Name: mockName("cert", 97), Description: "mock", Source: lint.Community},
		Lint: func() lint.CertificateLintInterface {
			if mockCtorPanics { // registration and Filter call the constructor themselves: it panics only while linting
				panic("verif mock panic in constructor")
			}
			return mockCert{lint.Pass}
		}})
	lint.RegisterCertificateLint(&lint.CertificateLint{LintMetadata: lint.LintMetadata{Name: mockName("cert", 96), Description: "mock", Source: lint.Community},
		Lint: func() lint.CertificateLintInterface { return mockCertCfg{mockCert{lint.Pass}} }})
}

// c01Mocks: all 2^7 subsets of statuses × 3 kinds (plus the panicking
// certificate mock), each selected with IncludeNames; the flags and the key
// set must follow. Runs last: it adds lints to this process's global registry.
func c01Mocks(ctx *core.Ctx, rep *core.Report, sel []seeds.Seed) {
	objs := map[seeds.Kind]*zl.Obj{}
	var sd = map[seeds.Kind]*seeds.Seed{}
	for i := range sel {
		s := &sel[i]
		if objs[s.Kind] == nil {
			if o, err := zl.Parse(s.Kind, s.DER); err == nil {
				objs[s.Kind], sd[s.Kind] = o, s
			}
		}
	}
	registerMocks()
	kinds := []seeds.Kind{seeds.Cert, seeds.CRL, seeds.OCSP}
	for _, k := range kinds {
		o := objs[k]
		if o == nil {
			rep.Hole("no %s seed for the mock status mixes", k)
			continue
		}
		maxMask := 1 << 7
		for mask := 0; mask < maxMask; mask++ {
			for _, phase := range append([]int{0}, panicPhases...) {
				withPanic := phase != 0
				if withPanic && k != seeds.Cert {
					continue
				}
				var names []string
				for st := 1; st <= 7; st++ {
					if mask&(1<<(st-1)) != 0 {
						names = append(names, mockName(k.String(), st))
					}
				}
				if withPanic {
					names = append(names, mockName("cert", phase))
				}
				if len(names) == 0 {
					continue
				}
				reg, err := lint.GlobalRegistry().Filter(lint.FilterOptions{IncludeNames: names})
				if err != nil {
					rep.InternalError("mock filter: %v", err)
					return
				}
				mockCtorPanics = true
				rs, p := zl.Lint(o, reg)
				mockCtorPanics = false
				rep.Inc("mock_mixes")
				rep.Inc("validated")
				bad := rsInvariant(o, reg, rs, p)
				// the mock must come back with exactly its status
				if rs != nil {
					for st := 1; st <= 7; st++ {
						if r := rs.Results[mockName(k.String(), st)]; r != nil && int(r.Status) != st {
							bad = append(bad, [2]string{"C01|" + k.String() + "|status_altered", fmt.Sprintf("mock returning %d reported as %d", st, int(r.Status))})
						}
					}
					if withPanic {
						if r := rs.Results[mockName("cert", phase)]; r == nil || r.Status != lint.Fatal {
							bad = append(bad, [2]string{"C01|cert|panic_not_fatal", fmt.Sprintf("certificate lint panicking in phase %d (99 Execute, 98 CheckApplies, 97 constructor, 96 Configure) did not yield a fatal result", phase)})
						}
					}
				}
				sort.Strings(names)
				for _, b := range bad {
					rep.Violate(b[0], b[1]+" [mock mix "+strings.Join(names, ",")+"]", map[string]interface{}{
						"op": "mock_mix", "kind": k.String(), "mask": mask, "panic_phase": phase, "seed": sd[k].Name})
				}
			}
		}
	}
}

func replayC01(rp map[string]interface{}) (string, error) {
	if op, _ := rp["op"].(string); op != "" {
		return "", fmt.Errorf("op replays (%s) are re-run by the check itself", op)
	}
	st, err := stateFromReplay(rp)
	if err != nil {
		return "", err
	}
	regName, _ := rp["registry"].(string)
	cfgName, _ := rp["config"].(string)
	for _, nr := range RegistryFamily() {
		if nr.Name != regName {
			continue
		}
		for _, c := range configFamily() {
			if c.Name != cfgName {
				continue
			}
			rs, p, reg, err := lintWithConfig(st.Obj, nr, c)
			if err != nil {
				return "", err
			}
			if bad := rsInvariant(st.Obj, reg, rs, p); len(bad) > 0 {
				return bad[0][0] + ": " + bad[0][1], nil
			}
			return "", nil
		}
	}
	return "", fmt.Errorf("registry/config not found")
}
