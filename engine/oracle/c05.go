package oracle

import (
	"crypto/sha256"
	"encoding/hex"
	"fmt"
	"math/big"
	"reflect"
	"sort"
	"strings"
	"syscall"
	"time"

	"github.com/zmap/zlint/v3"
	"github.com/zmap/zlint/v3/lint"

	"verif/certgen"
	"verif/core"
	"verif/der"
	"verif/seam"
	"verif/seeds"
	"verif/xstate"
	"verif/zl"
)

func init() {
	core.Checks["C05"] = checkC05
	core.Checks["C05io"] = checkC05io
	core.Checks["C05first"] = checkC05first
	core.Checks["C05sat"] = checkC05sat
	core.Replayers["C05"] = replayC05
}

// The two lints the property exempts from "function of object, registry and
// configuration alone" (they compare host names with today's TLD table).
var c05ClockExempt = map[string]bool{"w_sub_cert_aia_contains_internal_names": true, "w_smime_aia_contains_internal_names": true}

const c05T0 = 1767225600 // 2026-01-01T00:00:00Z

// ---- deep snapshot of exported fields ----------------------------------------------------

type snapper struct {
	h    interface{ Write([]byte) (int, error) }
	seen map[uintptr]bool
}

var (
	typBigInt = reflect.TypeOf(big.Int{})
	typTime   = reflect.TypeOf(time.Time{})
)

func (s *snapper) w(f string, a ...interface{}) { fmt.Fprintf(s.h, f, a...) }

func (s *snapper) walk(v reflect.Value, depth int) {
	if depth > 24 {
		s.w("<deep>")
		return
	}
	if !v.IsValid() {
		s.w("<invalid>")
		return
	}
	switch v.Type() {
	case typBigInt:
		if v.CanAddr() {
			b := v.Addr().Interface().(*big.Int)
			s.w("big:%s;", b.Text(16))
		} else {
			b := v.Interface().(big.Int)
			s.w("big:%s;", b.Text(16))
		}
		return
	case typTime:
		t := v.Interface().(time.Time)
		_, off := t.Zone()
		s.w("time:%d.%d@%d;", t.Unix(), t.Nanosecond(), off)
		return
	}
	switch v.Kind() {
	case reflect.Ptr:
		if v.IsNil() {
			s.w("nil;")
			return
		}
		p := v.Pointer()
		if s.seen[p] {
			s.w("<cycle>;")
			return
		}
		s.seen[p] = true
		s.w("&")
		s.walk(v.Elem(), depth+1)
	case reflect.Interface:
		if v.IsNil() {
			s.w("nil;")
			return
		}
		s.w("i(%s)", v.Elem().Type())
		s.walk(v.Elem(), depth+1)
	case reflect.Struct:
		s.w("{")
		t := v.Type()
		for i := 0; i < v.NumField(); i++ {
			f := t.Field(i)
			if f.PkgPath != "" {
				continue // unexported: outside the property
			}
			s.w("%s:", f.Name)
			s.walk(v.Field(i), depth+1)
		}
		s.w("}")
	case reflect.Slice:
		if v.IsNil() {
			s.w("nilslice;")
			return
		}
		s.w("[%d:", v.Len())
		if v.Type().Elem().Kind() == reflect.Uint8 {
			s.w("%x", v.Bytes())
		} else {
			for i := 0; i < v.Len(); i++ {
				s.walk(v.Index(i), depth+1)
				s.w(",")
			}
		}
		s.w("]")
	case reflect.Array:
		s.w("[")
		for i := 0; i < v.Len(); i++ {
			s.walk(v.Index(i), depth+1)
			s.w(",")
		}
		s.w("]")
	case reflect.Map:
		if v.IsNil() {
			s.w("nilmap;")
			return
		}
		type kv struct {
			k string
			v reflect.Value
		}
		var l []kv
		it := v.MapRange()
		for it.Next() {
			l = append(l, kv{fmt.Sprintf("%v", it.Key().Interface()), it.Value()})
		}
		sort.Slice(l, func(i, j int) bool { return l[i].k < l[j].k })
		s.w("map[%d:", len(l))
		for _, e := range l {
			s.w("%s=>", e.k)
			s.walk(e.v, depth+1)
			s.w(",")
		}
		s.w("]")
	case reflect.Func, reflect.Chan, reflect.UnsafePointer:
		s.w("<%s>", v.Kind())
	default:
		s.w("%v;", v.Interface())
	}
}

// snapshot hashes every exported field reachable from the parsed object.
func snapshot(o *zl.Obj) string {
	h := sha256.New()
	s := &snapper{h: h, seen: map[uintptr]bool{}}
	switch o.Kind {
	case seeds.Cert:
		s.walk(reflect.ValueOf(o.Cert), 0)
	case seeds.CRL:
		s.walk(reflect.ValueOf(o.CRL), 0)
	default:
		s.walk(reflect.ValueOf(o.OCSP), 0)
	}
	return hex.EncodeToString(h.Sum(nil)[:12])
}

// firstDiffField names the first exported top-level field that differs between two objects.
func changedFields(a, b *zl.Obj) []string {
	var va, vb reflect.Value
	switch a.Kind {
	case seeds.Cert:
		va, vb = reflect.ValueOf(a.Cert).Elem(), reflect.ValueOf(b.Cert).Elem()
	case seeds.CRL:
		va, vb = reflect.ValueOf(a.CRL).Elem(), reflect.ValueOf(b.CRL).Elem()
	default:
		va, vb = reflect.ValueOf(a.OCSP).Elem(), reflect.ValueOf(b.OCSP).Elem()
	}
	var out []string
	for i := 0; i < va.NumField(); i++ {
		f := va.Type().Field(i)
		if f.PkgPath != "" {
			continue
		}
		ha, hb := sha256.New(), sha256.New()
		(&snapper{h: ha, seen: map[uintptr]bool{}}).walk(va.Field(i), 0)
		(&snapper{h: hb, seen: map[uintptr]bool{}}).walk(vb.Field(i), 0)
		if string(ha.Sum(nil)) != string(hb.Sum(nil)) {
			out = append(out, f.Name)
		}
	}
	return out
}

// ---- determinism under every map-iteration start and two clocks ---------------------------

type c05Run struct {
	vec   map[string][2]string // lint → status, details
	snapB string
	snapA string
	io    int64 // file / network / process system calls issued while linting (syscall seam)
}

func c05LintOnce(kind seeds.Kind, derBytes []byte, ctl uintptr, seed uint32, now int64, reg lint.Registry) (*c05Run, *zl.Obj) {
	seam.SetMapOrder(ctl, seed)
	seam.SetNow(now)
	defer func() { seam.SetMapOrder(1, 0x9e3779b9); seam.SetNow(0) }()
	o, err := zl.Parse(kind, derBytes)
	if err != nil {
		return nil, nil
	}
	r := &c05Run{vec: map[string][2]string{}}
	r.snapB = snapshot(o)
	io0 := seam.IOCalls()
	rs, p := zl.Lint(o, reg)
	r.io = seam.IOCalls() - io0
	r.snapA = snapshot(o)
	if p != nil || rs == nil {
		return nil, o
	}
	for n, x := range rs.Results {
		if x != nil {
			r.vec[n] = [2]string{x.Status.String(), x.Details}
		}
	}
	return r, o
}

func c05State(st *xstate.State, nctl int, seedsList []uint32, rep *core.Report) (out [][2]string) {
	g := lint.GlobalRegistry()
	var ref *c05Run
	refDesc := ""
	add := func(k, w string) { out = append(out, [2]string{k, w}) }
	for _, sd := range seedsList {
		for ctl := 1; ctl <= nctl; ctl++ {
			r, o := c05LintOnce(st.Seed.Kind, st.DER, uintptr(ctl), sd, c05T0, g)
			if r == nil {
				continue
			}
			if rep != nil {
				rep.Inc("transitions")
				rep.Inc("validated")
				rep.Inc("map_order_runs")
			}
			if r.io != 0 {
				add("C05|performs_io", fmt.Sprintf("linting issued %d file / network / process system call(s) (openat, fstatat, faccessat, readlinkat, socket, connect, fork/exec — counted inside package syscall)", r.io))
			}
			if r.snapA != r.snapB {
				o2, _ := zl.Parse(st.Seed.Kind, st.DER)
				add("C05|object_modified|"+strings.Join(changedFields(o, o2), "+"), "linting changed exported fields of the linted object: "+strings.Join(changedFields(o, o2), ", "))
			}
			desc := fmt.Sprintf("map start %d seed %#x", ctl-1, sd)
			if ref == nil {
				ref, refDesc = r, desc
				continue
			}
			for n, v := range r.vec {
				w, ok := ref.vec[n]
				if !ok {
					continue
				}
				if v[0] != w[0] {
					add("C05|"+n+"|map_order|status", fmt.Sprintf("%s: status %s under %s, %s under %s", n, w[0], refDesc, v[0], desc))
				} else if v[1] != w[1] {
					add("C05|"+n+"|map_order|details", fmt.Sprintf("%s: details %q under %s, %q under %s", n, w[1], refDesc, v[1], desc))
				}
			}
		}
	}
	// second clock: ten years later, same map order
	if ref != nil {
		r, _ := c05LintOnce(st.Seed.Kind, st.DER, 1, seedsList[0], c05T0+10*365*86400, g)
		if r != nil {
			if rep != nil {
				rep.Inc("clock_runs")
				rep.Inc("validated")
			}
			for n, v := range r.vec {
				w, ok := ref.vec[n]
				if ok && (v[0] != w[0] || v[1] != w[1]) && !c05ClockExempt[n] {
					add("C05|"+n+"|clock", fmt.Sprintf("%s: %s %q with the clock at T0, %s %q ten years later", n, w[0], w[1], v[0], v[1]))
				}
			}
		}
	}
	return out
}

// c05NowAccounting drives every lint directly and counts time.Now / environment calls.
func c05NowAccounting(o *zl.Obj, rep *core.Report) (out [][2]string) {
	if !seam.Enabled {
		return nil
	}
	g := lint.GlobalRegistry()
	drive := func(name string, f func()) {
		n0, e0 := seam.NowCalls(), seam.EnvCalls()
		func() {
			defer func() { _ = recover() }()
			f()
		}()
		dn, de := seam.NowCalls()-n0, seam.EnvCalls()-e0
		if rep != nil {
			rep.Inc("validated")
			if dn > 0 {
				rep.SetAdd("lints_reading_the_clock", name)
			}
		}
		if dn > 0 && !c05ClockExempt[name] {
			out = append(out, [2]string{"C05|" + name + "|reads_clock", fmt.Sprintf("%s read the wall clock %d time(s) while judging", name, dn)})
		}
		if de > 0 {
			out = append(out, [2]string{"C05|" + name + "|reads_environment", fmt.Sprintf("%s accessed the process environment %d time(s) while judging", name, de)})
		}
	}
	switch o.Kind {
	case seeds.Cert:
		for _, l := range g.CertificateLints().Lints() {
			l := l
			drive(l.Name, func() {
				in := l.Lint()
				if g.GetConfiguration().MaybeConfigure(in, l.Name) == nil && in.CheckApplies(o.Cert) {
					in.Execute(o.Cert)
				}
			})
		}
	case seeds.CRL:
		for _, l := range g.RevocationListLints().Lints() {
			l := l
			drive(l.Name, func() {
				in := l.Lint()
				if g.GetConfiguration().MaybeConfigure(in, l.Name) == nil && in.CheckApplies(o.CRL) {
					in.Execute(o.CRL)
				}
			})
		}
	default:
		for _, l := range g.OcspResponseLints().Lints() {
			l := l
			drive(l.Name, func() {
				in := l.Lint()
				if g.GetConfiguration().MaybeConfigure(in, l.Name) == nil && in.CheckApplies(o.OCSP) {
					in.Execute(o.OCSP)
				}
			})
		}
	}
	return out
}

// c05Repeat: "however often it is repeated" — the SAME parsed object is linted twice in a row (fixed map order and
// clock); both passes must agree on every status and details text, and the exported fields must be what they were.
// A lint that edits the object, or a cache inside it, changes what the lints running before it see the second time.
func c05Repeat(st *xstate.State, rep *core.Report) (out [][2]string) {
	seam.SetMapOrder(1, 0x9e3779b9)
	seam.SetNow(c05T0)
	defer seam.SetNow(0)
	o, err := zl.Parse(st.Seed.Kind, st.DER)
	if err != nil {
		return nil
	}
	g := lint.GlobalRegistry()
	before := snapshot(o)
	r1, p1 := zl.Lint(o, g)
	after := snapshot(o)
	r2, p2 := zl.Lint(o, g)
	if rep != nil {
		rep.Add("transitions", 2)
		rep.Inc("validated")
		rep.Inc("repeat_runs")
	}
	if before != after {
		o2, _ := zl.Parse(st.Seed.Kind, st.DER)
		f := strings.Join(changedFields(o, o2), "+")
		out = append(out, [2]string{"C05|object_modified|" + f, "linting changed exported fields of the linted object: " + f})
	}
	if p1 != nil || p2 != nil || r1 == nil || r2 == nil {
		return out
	}
	for n, a := range r1.Results {
		b := r2.Results[n]
		if a == nil || b == nil {
			continue
		}
		if a.Status != b.Status {
			out = append(out, [2]string{"C05|" + n + "|repeat|status", fmt.Sprintf("%s: %s the first time the object is linted, %s the second time", n, a.Status, b.Status)})
		} else if a.Details != b.Details {
			out = append(out, [2]string{"C05|" + n + "|repeat|details", fmt.Sprintf("%s: details %q the first time the object is linted, %q the second time", n, a.Details, b.Details)})
		}
	}
	return out
}

func vecOf(rs *zlint.ResultSet) string { return zl.Vector(rs, true) }

func checkC05(ctx *core.Ctx, rep *core.Report) {
	if !seam.Enabled {
		rep.InternalError("C05 needs the std overlay build (tag verifseam)")
		return
	}
	all := seeds.Load()
	_ = time.Now().Local().String() // the runtime reads the local time zone once, lazily: not the linter's doing
	if seam.IOSeam {
		rep.Note("syscall seam installed: file / network / process system calls are counted around every lint run of the map-order exploration")
	} else {
		rep.Hole("syscall seam could not be installed on this Go toolchain: I/O freedom is decided by the strace pass only")
	}
	rep.Add("seeds_total", int64(len(all)))
	// ---- history independence first: this process's first lint call is shard-specific --------
	c05Histories(ctx, rep, all)

	nth, nctl := 96, 8
	seedList := []uint32{0x9e3779b9}
	if !ctx.Quick() {
		nth, nctl = 8, 64
		seedList = append(seedList, 0x7f4a7c15)
	}
	// depth-0 on all seeds, depth-1 on the selection
	report := func(st *xstate.State, v [][2]string) {
		for _, b := range v {
			rep.Violate(b[0], b[1]+" [seed "+st.Seed.Name+" path "+strings.Join(st.Path, ",")+"]", st.Replay())
		}
	}
	xstate.Explore(ctx, rep, xstate.Options{Seeds: all, Depth: 0}, func(st *xstate.State) {
		report(st, c05State(st, 64, seedList, rep))
		report(st, c05Repeat(st, rep))
		seam.SetMapOrder(1, seedList[0])
		seam.SetNow(c05T0)
		report(st, c05NowAccounting(st.Obj, rep))
		seam.SetNow(0)
	})
	sel := pickSeedsPlain(all, argInt(ctx, "nth", nth))
	xstate.Explore(ctx, rep, xstate.Options{Seeds: sel, Depth: 1, NoCompound: ctx.Quick()}, func(st *xstate.State) {
		if len(st.Path) == 0 {
			return
		}
		report(st, c05State(st, nctl, seedList[:1], rep))
		rep.Sample(2, map[string]interface{}{"seed": st.Seed.Name, "path": st.Path, "map_starts": nctl})
	})
	// read-only + repetition on every list-shape change (delete / duplicate / swap / grow / duplicate-and-modify) of the
	// (lint, status) cover of the corpus: two lint runs per state instead of nine, so the whole cover is affordable
	cover := pickSeeds(all, 1<<30)
	xstate.Explore(ctx, rep, xstate.Options{Seeds: cover, Depth: 1, Only: func(d string) bool {
		return xstate.Structural(d) || strings.Contains(d, ":dm")
	}}, func(st *xstate.State) {
		report(st, c05Repeat(st, rep))
	})
	// every map-iteration start on the lists that repeat themselves (one element duplicated, two elements duplicated) over
	// the same cover: text assembled from a map / set of the repeated things is where iteration order shows
	nrep := 4
	if !ctx.Quick() {
		nrep = 8
	}
	xstate.Explore(ctx, rep, xstate.Options{Seeds: cover, Depth: 1, Only: func(d string) bool {
		return strings.HasSuffix(d, ":dup") || strings.Contains(d, ":dup2:")
	}}, func(st *xstate.State) {
		if len(st.Path) == 0 {
			return
		}
		report(st, c05State(st, nrep, seedList[:1], rep))
		rep.Inc("map_order_states_on_repeated_list_elements")
	})
	// revocation lists over the entry-list product (common.go): repetition, read-only and two map-iteration starts
	maxLen := 2
	if !ctx.Quick() {
		maxLen = 3
	}
	n := crlEntryStates(ctx, all, maxLen, func(st *xstate.State) {
		rep.Inc("states")
		report(st, c05Repeat(st, rep))
		report(st, c05State(st, 2, seedList[:1], rep))
	})
	rep.Add("crl_entry_list_states", int64(n))
}

// c05Histories: every ordered pair (and triples over a subset) of lint calls —
// other objects, other registries, other configurations — before `lint x`;
// x must give what it gave the first time in this process, and the per-process
// tables are compared across processes by the driver (each shard starts with a
// different first object: a first-call-wins cache shows up there).
func c05Histories(ctx *core.Ctx, rep *core.Report, all []seeds.Seed) {
	seam.SetMapOrder(1, 0x9e3779b9)
	seam.SetNow(c05T0)
	defer func() { seam.SetNow(0) }()
	// a diverse object set: spread over the corpus + every CRL/OCSP kind represented
	n := 48
	if !ctx.Quick() {
		n = 96
	}
	var pick []seeds.Seed
	var certs []seeds.Seed
	for _, s := range all {
		if s.Kind == seeds.Cert {
			certs = append(certs, s)
		}
	}
	for i := 0; i < n && len(certs) > 0; i++ {
		pick = append(pick, certs[(i*len(certs))/n])
	}
	k := 0
	for _, s := range all {
		if s.Kind != seeds.Cert && k < 8 {
			pick = append(pick, s)
			k++
		}
	}
	// rotate so that every shard's very first lint call is a different object
	rot := (ctx.Shard * 7) % len(pick)
	pick = append(append([]seeds.Seed{}, pick[rot:]...), pick[:rot]...)
	objs := make([]*zl.Obj, len(pick))
	for i := range pick {
		objs[i], _ = zl.Parse(pick[i].Kind, pick[i].DER)
	}
	g := lint.GlobalRegistry()
	regs := []lint.Registry{g}
	for _, o := range []lint.FilterOptions{{IncludeSources: lint.SourceList{lint.CABFBaselineRequirements}}, {ExcludeSources: lint.SourceList{lint.RFC5280}}} {
		if r, err := g.Filter(o); err == nil {
			regs = append(regs, r)
		}
	}
	cfgTexts := []string{"", "[e_rsa_fermat_factorization]\nRounds = 3\n[e_subj_contains_html_entities]\nSkip = true\n"}
	if b, err := g.DefaultConfiguration(); err == nil {
		cfgTexts = append(cfgTexts, string(b))
	}
	var cfgRegs []lint.Registry
	for _, t := range cfgTexts {
		c, err := lint.NewConfigFromString(t)
		if err != nil {
			continue
		}
		r := fullCopy()
		r.SetConfiguration(c)
		cfgRegs = append(cfgRegs, r)
	}
	prelude := func(i, variant int) {
		if objs[i] == nil {
			return
		}
		switch variant % 3 {
		case 0:
			zl.Lint(objs[i], regs[variant%len(regs)])
		case 1:
			zl.Lint(objs[i], cfgRegs[variant%len(cfgRegs)])
		default:
			zl.Lint(objs[i], g)
		}
		rep.Inc("transitions")
	}
	first := map[int]string{}
	check := func(x int, hist string) {
		if objs[x] == nil {
			return
		}
		// x is re-parsed: the property is about the process, not about the object
		o, err := zl.Parse(pick[x].Kind, pick[x].DER)
		if err != nil {
			return
		}
		rs, p := zl.Lint(o, g)
		if p != nil || rs == nil {
			return
		}
		rep.Inc("states")
		rep.Inc("validated")
		rep.Inc("history_checks")
		v := vecOf(rs)
		if f, ok := first[x]; !ok {
			first[x] = v
			rep.SetAdd("history_tables", pick[x].Name+"|"+fmt.Sprintf("%016x", core.HashStr(v)))
		} else if f != v {
			for _, d := range diffVectors(f, v) {
				rep.Violate("C05|"+d[0]+"|history", fmt.Sprintf("%s on %s: %q the first time in this process, %q after the history [%s]", d[0], pick[x].Name, d[1], d[2], hist),
					map[string]interface{}{"op": "history", "object": pick[x].Name, "history": hist, "shard": ctx.Shard})
			}
		}
	}
	// depth 1: baseline of every object (shard-specific order)
	for x := range objs {
		check(x, "initial")
	}
	// depth 2: all ordered pairs, sharded
	idx := uint64(0)
	for y := range objs {
		for x := range objs {
			idx++
			if !ctx.Mine(idx) {
				continue
			}
			prelude(y, int(idx))
			check(x, fmt.Sprintf("lint %s (variant %d); lint %s", pick[y].Name, idx%3, pick[x].Name))
		}
	}
	// depth 3 over a subset
	m := 14
	if !ctx.Quick() {
		m = 24
	}
	if m > len(objs) {
		m = len(objs)
	}
	for z := 0; z < m; z++ {
		for y := 0; y < m; y++ {
			for x := 0; x < m; x++ {
				idx++
				if !ctx.Mine(idx) {
					continue
				}
				zi, yi, xi := (z*len(objs))/m, (y*len(objs))/m, (x*len(objs))/m
				prelude(zi, int(idx))
				prelude(yi, int(idx)+1)
				check(xi, fmt.Sprintf("lint %s; lint %s; lint %s", pick[zi].Name, pick[yi].Name, pick[xi].Name))
			}
		}
	}
}

// checkC05io is run under strace by the driver: everything that needs the file
// system happens before the BEGIN marker; between the markers only linting.
func checkC05io(ctx *core.Ctx, rep *core.Report) {
	all := seeds.Load()
	var objs []*zl.Obj
	for i := range all {
		if o, err := zl.Parse(all[i].Kind, all[i].DER); err == nil {
			objs = append(objs, o)
		}
	}
	g := lint.GlobalRegistry()
	regs := []lint.Registry{g}
	for _, nr := range RegistryFamily()[1:8] {
		regs = append(regs, nr.Reg)
	}
	if b, err := g.DefaultConfiguration(); err == nil {
		if c, err := lint.NewConfigFromString(string(b)); err == nil {
			r := fullCopy()
			r.SetConfiguration(c)
			regs = append(regs, r)
		}
	}
	e0 := seam.EnvCalls()
	_ = syscall.Access("/verif-marker-begin", 0)
	for i, o := range objs {
		zl.Lint(o, regs[0])
		zl.Lint(o, regs[1+i%(len(regs)-1)])
		rep.Inc("states")
		rep.Inc("transitions")
		rep.Inc("validated")
	}
	_ = syscall.Access("/verif-marker-end", 0)
	if d := seam.EnvCalls() - e0; d != 0 {
		rep.Violate("C05|environment_access", fmt.Sprintf("%d environment accesses while linting", d), map[string]interface{}{"op": "io"})
	}
	rep.Add("io_objects", int64(len(objs)))
}

func replayC05(rp map[string]interface{}) (string, error) {
	if op, _ := rp["op"].(string); op != "" {
		return "", fmt.Errorf("op replay %s is re-run by the check itself", op)
	}
	if !seam.Enabled {
		return "", fmt.Errorf("replay needs the std overlay build")
	}
	st, err := stateFromReplay(rp)
	if err != nil {
		return "", err
	}
	v := c05State(st, 64, []uint32{0x9e3779b9, 0x7f4a7c15}, nil)
	seam.SetMapOrder(1, 0x9e3779b9)
	seam.SetNow(c05T0)
	v = append(v, c05NowAccounting(st.Obj, nil)...)
	v = append(v, c05Repeat(st, nil)...)
	if len(v) > 0 {
		return v[0][0] + ": " + v[0][1], nil
	}
	return "", nil
}

// c05Objects: the corpus plus a product of own TLS-leaf templates — every key-usage shape (each single
// bit and five common pairs) × every EKU set of size ≤ 2 over seven purposes, with an RSA and an EC key.
// Tables shared between lints (allowed KU per EKU, OID tables …) are indexed by exactly these fields, so
// an object that widens such a table and an object that is judged by it are both in the set.
func c05Objects() []seeds.Seed {
	all := seeds.Load()
	ekus := [][]int{certgen.EKUServerAuth, certgen.EKUClientAuth, certgen.EKUEmail, certgen.EKUCodeSigning, certgen.EKUOCSP, certgen.EKUTimeStamp, certgen.EKUAny}
	ekuNames := []string{"server", "client", "email", "code", "ocsp", "ts", "any"}
	var ekuSets [][]int
	ekuSets = append(ekuSets, nil)
	for i := range ekus {
		ekuSets = append(ekuSets, []int{i})
	}
	for i := range ekus {
		for j := range ekus {
			if i != j {
				ekuSets = append(ekuSets, []int{i, j}) // ordered: the first EKU is special to some lints
			}
		}
	}
	kus := [][]int{{0}, {1}, {2}, {3}, {4}, {5}, {6}, {7}, {8}, {0, 2}, {2, 4}, {0, 4}, {5, 6}, {0, 1}}
	for ki, ku := range kus {
		for ei, es := range ekuSets {
			for _, ec := range []bool{false, true} {
				if ec && (ki+ei)%3 != 0 {
					continue
				}
				sp := tlsLeafSpec(date(2024, 3, 1), date(2024, 9, 1))
				var eo [][]int
				name := fmt.Sprintf("tmpl:ku=%v,eku=", ku)
				for _, e := range es {
					eo = append(eo, ekus[e])
					name += ekuNames[e] + "+"
				}
				exts := []*der.Node{certgen.KeyUsage(ku...)}
				if len(eo) > 0 {
					exts = append(exts, certgen.EKU(eo...))
				}
				exts = append(exts, certgen.BasicConstraints(false, true), certgen.Policies(certgen.PolDV), certgen.SAN(false, certgen.GNDNS("example.com")))
				sp.Exts = exts
				if ec {
					sp.SPKI = certgen.ECSPKI()
					name += ",ec"
				}
				b := sp.Build()
				if _, err := seeds.ParseCert(b); err == nil {
					all = append(all, seeds.Seed{Name: name, Kind: seeds.Cert, DER: b})
				}
			}
		}
	}
	return all
}

// checkC05sat — saturation history: one process lints EVERY object (order from args: fwd | rev), then
// every object again. The second-pass table is compared by the driver with the fresh-process table
// (each object linted as the very first work of its own process): whatever the process accumulated
// from the whole corpus — a widened table, a memo, a sorted slice — must not show.
func checkC05sat(ctx *core.Ctx, rep *core.Report) {
	all := c05Objects()
	seam.SetNow(c05T0)
	g := lint.GlobalRegistry()
	order := make([]int, len(all))
	for i := range order {
		order[i] = i
		if ctx.Args["order"] == "rev" {
			order[i] = len(all) - 1 - i
		}
	}
	// order=cfg: the first pass runs under a registry whose configuration sets a non-default value for every
	// option of every configurable lint; the second pass (global registry, no configuration) must not remember it
	var first lint.Registry = g
	if ctx.Args["order"] == "cfg" {
		doc := ""
		for _, cl := range discoverConfigurable() {
			doc += "[" + cl.Name + "]\n"
			for _, f := range cl.Fields {
				if v := altValues(f); len(v) > 0 {
					doc += fmt.Sprintf("%s = %s\n", f.Name, tomlLit(v[0]))
				}
			}
		}
		if c, err := lint.NewConfigFromString(doc); err == nil {
			first = fullCopy()
			first.SetConfiguration(c)
		} else {
			rep.InternalError("saturation configuration: %v", err)
		}
	}
	for pass := 1; pass <= 2; pass++ {
		for _, i := range order {
			o, err := zl.Parse(all[i].Kind, all[i].DER)
			if err != nil {
				continue
			}
			reg := g
			if pass == 1 {
				reg = first
			}
			rs, p := zl.Lint(o, reg)
			rep.Inc("states")
			rep.Inc("transitions")
			if p != nil || rs == nil {
				continue
			}
			if pass == 2 {
				rep.SetAdd("sat_tables", all[i].Name+"|"+fmt.Sprintf("%016x", core.HashStr(vecOf(rs))))
			}
		}
	}
}

// checkC05first: one process per first object. The process lints object
// args[first] before anything else, then a fixed probe set; the driver
// compares the probe tables over all processes (a first-call-wins cache makes
// them differ).
func checkC05first(ctx *core.Ctx, rep *core.Report) {
	all := c05Objects()
	rep.Add("g_objects_total", int64(len(all)))
	first := argInt(ctx, "first", 0)
	if first < 0 || first >= len(all) {
		return
	}
	seam.SetNow(c05T0)
	g := lint.GlobalRegistry()
	if o, err := zl.Parse(all[first].Kind, all[first].DER); err == nil {
		if rs, p := zl.Lint(o, g); p == nil && rs != nil {
			// the fresh-process verdict of this object: reference of the saturation history
			rep.SetAdd("fresh_tables", all[first].Name+"|"+fmt.Sprintf("%016x", core.HashStr(vecOf(rs))))
		}
	}
	rep.Notes = append(rep.Notes, "first="+all[first].Name)
	nprobe := 32
	for i := 0; i < nprobe; i++ {
		sd := &all[(i*len(all))/nprobe]
		o, err := zl.Parse(sd.Kind, sd.DER)
		if err != nil {
			continue
		}
		rs, p := zl.Lint(o, g)
		if p != nil || rs == nil {
			continue
		}
		rep.Inc("states")
		rep.Inc("validated")
		rep.SetAdd("first_tables", sd.Name+"|"+fmt.Sprintf("%016x", core.HashStr(vecOf(rs))))
	}
}
