package oracle

import (
	"fmt"
	"reflect"
	"sort"
	"strings"

	"github.com/zmap/zlint/v3/lint"
)

// lintDesc is the observable identity of one registered lint.
type lintDesc struct {
	Name   string
	Source lint.LintSource
	Kind   string      // cert | crl | ocsp
	Ptr    interface{} // the registered object (pointer identity)
	Meta   lint.LintMetadata
}

// snapshotRegistry lists a registry through its per-kind listings.
func snapshotRegistry(r lint.Registry) []lintDesc {
	var out []lintDesc
	for _, l := range r.CertificateLints().Lints() {
		out = append(out, lintDesc{l.Name, l.Source, "cert", l, l.LintMetadata})
	}
	for _, l := range r.RevocationListLints().Lints() {
		out = append(out, lintDesc{l.Name, l.Source, "crl", l, l.LintMetadata})
	}
	for _, l := range r.OcspResponseLints().Lints() {
		out = append(out, lintDesc{l.Name, l.Source, "ocsp", l, l.LintMetadata})
	}
	return out
}

// refFilter is the set comprehension of property C08, literally.
// It returns the selected lints, or wantErr.
func refFilter(parent []lintDesc, o lint.FilterOptions) (sel []lintDesc, wantErr bool) {
	known := map[string]bool{}
	for _, d := range parent {
		known[d.Name] = true
	}
	trimSet := func(l []string) (map[string]bool, bool) {
		m := map[string]bool{}
		for _, n := range l {
			n = strings.TrimSpace(n)
			if !known[n] {
				return nil, true
			}
			m[n] = true
		}
		return m, false
	}
	ex, bad1 := trimSet(o.ExcludeNames)
	in, bad2 := trimSet(o.IncludeNames)
	if bad1 || bad2 {
		return nil, true
	}
	if o.NameFilter != nil && (len(ex) > 0 || len(in) > 0) {
		return nil, true
	}
	exS := map[lint.LintSource]bool{}
	for _, s := range o.ExcludeSources {
		exS[s] = true
	}
	inS := map[lint.LintSource]bool{}
	for _, s := range o.IncludeSources {
		inS[s] = true
	}
	for _, d := range parent {
		if exS[d.Source] {
			continue
		}
		if len(inS) > 0 && !inS[d.Source] {
			continue
		}
		if o.NameFilter != nil && !o.NameFilter.MatchString(d.Name) {
			continue
		}
		if ex[d.Name] {
			continue
		}
		if len(in) > 0 && !in[d.Name] {
			continue
		}
		sel = append(sel, d)
	}
	return sel, false
}

// compareRegistry checks every lookup structure of r against the model list.
func compareRegistry(r lint.Registry, want []lintDesc) []string {
	var bad []string
	wn := make([]string, 0, len(want))
	byKind := map[string]map[string]lintDesc{"cert": {}, "crl": {}, "ocsp": {}}
	srcs := map[lint.LintSource]bool{}
	for _, d := range want {
		wn = append(wn, d.Name)
		byKind[d.Kind][d.Name] = d
		srcs[d.Source] = true
	}
	sort.Strings(wn)
	got := r.Names()
	if !reflect.DeepEqual(append([]string{}, got...), wn) && !(len(got) == 0 && len(wn) == 0) {
		bad = append(bad, fmt.Sprintf("Names(): got %d names, model %d (first diff %s)", len(got), len(wn), firstDiff(got, wn)))
	}
	if !sort.StringsAreSorted(got) {
		bad = append(bad, "Names() not sorted")
	}
	// two-step sequence: the caller edits the slice it was handed (reverses it, blanks an entry, filters it in
	// place) — that is the caller's own copy, the next listing must be unaffected
	for i, j := 0, len(got)-1; i < j; i, j = i+1, j-1 {
		got[i], got[j] = got[j], got[i]
	}
	if len(got) > 0 {
		got[0] = ""
		_ = append(got[:0], "zz_scribble")
	}
	if again := r.Names(); !reflect.DeepEqual(append([]string{}, again...), wn) && !(len(again) == 0 && len(wn) == 0) {
		bad = append(bad, fmt.Sprintf("Names() differs after the caller edited the slice returned by the previous call: the registry hands out its own backing array (%s)", firstDiff(again, wn)))
	}
	gs := map[lint.LintSource]bool{}
	srcList := r.Sources()
	for _, s := range srcList {
		if gs[s] {
			bad = append(bad, "Sources() lists "+string(s)+" twice")
		}
		gs[s] = true
	}
	for i := range srcList {
		srcList[i] = "zz_scribble"
	}
	for _, s := range r.Sources() {
		if !gs[s] {
			bad = append(bad, "Sources() differs after the caller edited the list returned by the previous call")
			break
		}
	}
	if !reflect.DeepEqual(gs, srcs) {
		bad = append(bad, fmt.Sprintf("Sources(): got %v, model %v", keysOf(gs), keysOf(srcs)))
	}
	snap := snapshotRegistry(r)
	seen := map[string]bool{}
	for _, d := range snap {
		w, ok := byKind[d.Kind][d.Name]
		if !ok {
			bad = append(bad, fmt.Sprintf("%s lint %s listed but not selected by the model", d.Kind, d.Name))
			continue
		}
		if seen[d.Kind+"|"+d.Name] {
			bad = append(bad, "lint "+d.Name+" listed twice")
		}
		seen[d.Kind+"|"+d.Name] = true
		if d.Meta != w.Meta {
			bad = append(bad, "lint "+d.Name+" has altered metadata")
		}
	}
	for k, m := range byKind {
		for n := range m {
			if !seen[k+"|"+n] {
				bad = append(bad, fmt.Sprintf("%s lint %s selected by the model but not listed", k, n))
			}
		}
	}
	// ByName / BySource per kind
	for _, d := range want {
		var p *lint.LintMetadata
		var bs []string
		switch d.Kind {
		case "cert":
			if l := r.CertificateLints().ByName(d.Name); l != nil {
				p = &l.LintMetadata
			}
			for _, l := range r.CertificateLints().BySource(d.Source) {
				bs = append(bs, l.Name)
			}
			if r.RevocationListLints().ByName(d.Name) != nil || r.OcspResponseLints().ByName(d.Name) != nil {
				bad = append(bad, "certificate lint "+d.Name+" also found in another kind's table")
			}
			if dl := r.ByName(d.Name); dl == nil || dl.Name != d.Name {
				bad = append(bad, "deprecated ByName misses "+d.Name)
			}
		case "crl":
			if l := r.RevocationListLints().ByName(d.Name); l != nil {
				p = &l.LintMetadata
			}
			for _, l := range r.RevocationListLints().BySource(d.Source) {
				bs = append(bs, l.Name)
			}
			if r.CertificateLints().ByName(d.Name) != nil || r.OcspResponseLints().ByName(d.Name) != nil {
				bad = append(bad, "CRL lint "+d.Name+" also found in another kind's table")
			}
		case "ocsp":
			if l := r.OcspResponseLints().ByName(d.Name); l != nil {
				p = &l.LintMetadata
			}
			for _, l := range r.OcspResponseLints().BySource(d.Source) {
				bs = append(bs, l.Name)
			}
			if r.CertificateLints().ByName(d.Name) != nil || r.RevocationListLints().ByName(d.Name) != nil {
				bad = append(bad, "OCSP lint "+d.Name+" also found in another kind's table")
			}
		}
		if p == nil || *p != d.Meta {
			bad = append(bad, d.Kind+" ByName("+d.Name+") does not return the lint registered under that name")
		}
		found := 0
		for _, n := range bs {
			if n == d.Name {
				found++
			}
		}
		if found != 1 {
			bad = append(bad, fmt.Sprintf("%s BySource(%s) lists %s %d times", d.Kind, d.Source, d.Name, found))
		}
		for _, n := range bs {
			if w, ok := byKind[d.Kind][n]; !ok || w.Source != d.Source {
				bad = append(bad, fmt.Sprintf("%s BySource(%s) lists foreign lint %s", d.Kind, d.Source, n))
			}
		}
	}
	if len(bad) > 6 {
		bad = append(bad[:6], fmt.Sprintf("… %d more", len(bad)-6))
	}
	return bad
}

func firstDiff(a, b []string) string {
	am, bm := map[string]bool{}, map[string]bool{}
	for _, x := range a {
		am[x] = true
	}
	for _, x := range b {
		bm[x] = true
	}
	for _, x := range a {
		if !bm[x] {
			return "extra " + x
		}
	}
	for _, x := range b {
		if !am[x] {
			return "missing " + x
		}
	}
	return "order"
}

func keysOf(m map[lint.LintSource]bool) []string {
	var out []string
	for k := range m {
		out = append(out, string(k))
	}
	sort.Strings(out)
	return out
}
