package oracle

import (
	"encoding/hex"
	"fmt"
	"strings"
	"time"

	"github.com/zmap/zcrypto/x509"
	"github.com/zmap/zlint/v3/lint"
	"golang.org/x/crypto/ocsp"

	"verif/certgen"
	"verif/core"
	"verif/der"
	"verif/seeds"
	"verif/xstate"
	"verif/zl"
)

func init() {
	core.Checks["C04"] = checkC04
	core.Replayers["C04"] = replayC04
}

// ---- instrumented mock lints ------------------------------------------------------
//
// Behaviour is steered through package variables owned by the harness; every
// instance logs its life-cycle. The applicability answer depends on the
// instance's configuration, so "configure after CheckApplies" is observable.

type lcCtl struct {
	applies bool
	outcome int // 1..7 status, 99 panic
}

var (
	lcControl  lcCtl
	lcLog      []string
	lcNextInst int
)

type lcState struct {
	id       int
	Flip     bool `toml:"flip"` // configuration field: flips the applicability answer
	execs    int
	cfgAsked bool
}

func newLC() *lcState {
	lcNextInst++
	lcLog = append(lcLog, fmt.Sprintf("new#%d", lcNextInst))
	return &lcState{id: lcNextInst}
}

func (s *lcState) applies() bool {
	lcLog = append(lcLog, fmt.Sprintf("applies#%d", s.id))
	return lcControl.applies != s.Flip
}

func (s *lcState) execute() *lint.LintResult {
	s.execs++
	lcLog = append(lcLog, fmt.Sprintf("execute#%d", s.id))
	if lcControl.outcome == 99 {
		panic("verif life-cycle mock panic")
	}
	return &lint.LintResult{Status: lint.LintStatus(lcControl.outcome), Details: fmt.Sprintf("body run %d flip=%v", s.execs, s.Flip)}
}

type lcCert struct{ *lcState }

func (m lcCert) CheckApplies(*x509.Certificate) bool        { return m.applies() }
func (m lcCert) Execute(*x509.Certificate) *lint.LintResult { return m.execute() }

type lcCertCfg struct{ *lcState }

func (m lcCertCfg) CheckApplies(*x509.Certificate) bool        { return m.applies() }
func (m lcCertCfg) Execute(*x509.Certificate) *lint.LintResult { return m.execute() }
func (m lcCertCfg) Configure() interface{} {
	lcLog = append(lcLog, fmt.Sprintf("configure#%d", m.id))
	return m.lcState
}

type lcCRL struct{ *lcState }

func (m lcCRL) CheckApplies(*x509.RevocationList) bool        { return m.applies() }
func (m lcCRL) Execute(*x509.RevocationList) *lint.LintResult { return m.execute() }

type lcCRLCfg struct{ *lcState }

func (m lcCRLCfg) CheckApplies(*x509.RevocationList) bool        { return m.applies() }
func (m lcCRLCfg) Execute(*x509.RevocationList) *lint.LintResult { return m.execute() }
func (m lcCRLCfg) Configure() interface{} {
	lcLog = append(lcLog, fmt.Sprintf("configure#%d", m.id))
	return m.lcState
}

type lcOCSP struct{ *lcState }

func (m lcOCSP) CheckApplies(*ocsp.Response) bool        { return m.applies() }
func (m lcOCSP) Execute(*ocsp.Response) *lint.LintResult { return m.execute() }

type lcOCSPCfg struct{ *lcState }

func (m lcOCSPCfg) CheckApplies(*ocsp.Response) bool        { return m.applies() }
func (m lcOCSPCfg) Execute(*ocsp.Response) *lint.LintResult { return m.execute() }
func (m lcOCSPCfg) Configure() interface{} {
	lcLog = append(lcLog, fmt.Sprintf("configure#%d", m.id))
	return m.lcState
}

var lcEff = time.Date(2019, 5, 1, 0, 0, 0, 0, time.UTC)
var lcIneff = time.Date(2023, 2, 1, 0, 0, 0, 0, time.UTC)

type lcMock struct {
	name         string
	kind         seeds.Kind
	source       lint.LintSource
	configurable bool
	eff, ineff   time.Time
	reg          lint.Registry
}

func allDeclaredSources() []lint.LintSource {
	var out []lint.LintSource
	for s := range declaredSources() {
		out = append(out, lint.LintSource(s))
	}
	sortSources(out)
	return out
}

func sortSources(s []lint.LintSource) {
	for i := 1; i < len(s); i++ {
		for j := i; j > 0 && s[j] < s[j-1]; j-- {
			s[j], s[j-1] = s[j-1], s[j]
		}
	}
}

func registerLCMocks() []*lcMock {
	var out []*lcMock
	shapes := [][2]time.Time{{}, {lcEff, {}}, {{}, lcIneff}, {lcEff, lcIneff}}
	i := 0
	for _, k := range []seeds.Kind{seeds.Cert, seeds.CRL, seeds.OCSP} {
		for _, src := range allDeclaredSources() {
			for _, sh := range shapes {
				for _, cfg := range []bool{false, true} {
					i++
					m := &lcMock{name: fmt.Sprintf("e_zz_veriflc_%s_%d", k, i), kind: k, source: src, configurable: cfg, eff: sh[0], ineff: sh[1]}
					meta := lint.LintMetadata{Name: m.name, Description: "life-cycle mock", Source: src, EffectiveDate: sh[0], IneffectiveDate: sh[1]}
					switch k {
					case seeds.Cert:
						if cfg {
							lint.RegisterCertificateLint(&lint.CertificateLint{LintMetadata: meta, Lint: func() lint.CertificateLintInterface { return lcCertCfg{newLC()} }})
						} else {
							lint.RegisterCertificateLint(&lint.CertificateLint{LintMetadata: meta, Lint: func() lint.CertificateLintInterface { return lcCert{newLC()} }})
						}
					case seeds.CRL:
						if cfg {
							lint.RegisterRevocationListLint(&lint.RevocationListLint{LintMetadata: meta, Lint: func() lint.RevocationListLintInterface { return lcCRLCfg{newLC()} }})
						} else {
							lint.RegisterRevocationListLint(&lint.RevocationListLint{LintMetadata: meta, Lint: func() lint.RevocationListLintInterface { return lcCRL{newLC()} }})
						}
					default:
						if cfg {
							lint.RegisterOcspResponseLint(&lint.OcspResponseLint{LintMetadata: meta, Lint: func() lint.OcspResponseLintInterface { return lcOCSPCfg{newLC()} }})
						} else {
							lint.RegisterOcspResponseLint(&lint.OcspResponseLint{LintMetadata: meta, Lint: func() lint.OcspResponseLintInterface { return lcOCSP{newLC()} }})
						}
					}
					out = append(out, m)
				}
			}
		}
	}
	return out
}

// ---- scope reference (independent re-statement of the documented rules) -----------

type scopeFacts struct {
	ekus     []string // "serverAuth", "clientAuth", "emailProtection", "codeSigning", "any", "ocsp", "timeStamping", "unknown"
	policies []string // dotted
	emailSAN string   // "none" | "empty" | "a@b" | otherName forms: "smtputf8" (a mailbox) | "smtputf8-empty" | "upn" | "othername-empty"
}

var smimePolicies = func() map[string]bool {
	m := map[string]bool{}
	for a := 1; a <= 4; a++ {
		for b := 1; b <= 3; b++ {
			m[fmt.Sprintf("2.23.140.1.5.%d.%d", a, b)] = true
		}
	}
	return m
}()

func refScope(src lint.LintSource, f scopeFacts) bool {
	has := func(e string) bool {
		for _, x := range f.ekus {
			if x == e {
				return true
			}
		}
		return false
	}
	switch src {
	case lint.CABFBaselineRequirements:
		if len(f.ekus) == 0 || has("any") || has("serverAuth") {
			return true
		}
		for _, p := range f.policies {
			if p == "2.23.140.1.2.1" || p == "2.23.140.1.2.2" || p == "2.23.140.1.2.3" || p == "2.23.140.1.1" {
				return true
			}
		}
		return false
	case lint.CABFSMIMEBaselineRequirements:
		if (f.emailSAN == "a@b" || f.emailSAN == "smtputf8") && (len(f.ekus) == 0 || has("any") || has("emailProtection")) {
			return true
		}
		for _, p := range f.policies {
			if smimePolicies[p] {
				return true
			}
		}
		return false
	case lint.CABFCSBaselineRequirements:
		for _, p := range f.policies {
			if p == "2.23.140.1.3" || p == "2.23.140.1.4.1" {
				return true
			}
		}
		return false
	}
	return true
}

var ekuOIDs = map[string][]int{
	"serverAuth": certgen.EKUServerAuth, "clientAuth": certgen.EKUClientAuth, "emailProtection": certgen.EKUEmail,
	"codeSigning": certgen.EKUCodeSigning, "any": certgen.EKUAny, "ocsp": certgen.EKUOCSP, "timeStamping": certgen.EKUTimeStamp,
	"unknown": {1, 3, 6, 1, 4, 1, 99999, 7, 7},
	// near misses of the usages that put a certificate in scope: a child arc, the parent arc (they are other usages)
	"serverAuth.1": append(append([]int{}, certgen.EKUServerAuth...), 1), "emailProtection.1": append(append([]int{}, certgen.EKUEmail...), 1),
	"any.1": append(append([]int{}, certgen.EKUAny...), 1), "kp(parent)": {1, 3, 6, 1, 5, 5, 7, 3}, "any(parent)": {2, 5, 29, 37},
}

func dotted(s string) []int {
	var out []int
	for _, p := range strings.Split(s, ".") {
		v := 0
		fmt.Sscan(p, &v)
		out = append(out, v)
	}
	return out
}

func scopeCert(f scopeFacts, nb time.Time) []byte {
	s := certgen.Spec{
		Subject:   certgen.Name(certgen.ATV{OID: certgen.OIDC, Tag: 19, Val: "US"}, certgen.ATV{OID: certgen.OIDO, Tag: 12, Val: "Org"}, certgen.ATV{OID: certgen.OIDCN, Tag: 12, Val: "example.com"}),
		NotBefore: nb, NotAfter: nb.AddDate(0, 6, 0),
		Exts: []*der.Node{certgen.KeyUsage(0), certgen.BasicConstraints(false, true)},
	}
	if len(f.ekus) > 0 {
		var oids [][]int
		for _, e := range f.ekus {
			oids = append(oids, ekuOIDs[e])
		}
		s.Exts = append(s.Exts, certgen.EKU(oids...))
	}
	if len(f.policies) > 0 {
		var oids [][]int
		for _, p := range f.policies {
			oids = append(oids, dotted(p))
		}
		s.Exts = append(s.Exts, certgen.Policies(oids...))
	}
	gns := []*der.Node{certgen.GNDNS("example.com")}
	switch f.emailSAN {
	case "empty":
		gns = append(gns, certgen.GNEmail(""))
	case "a@b":
		gns = append(gns, certgen.GNEmail("a@example.com"))
	case "smtputf8": // id-on-SmtpUTF8Mailbox, a mailbox: an e-mail indication
		gns = append(gns, certgen.GNOther([]int{1, 3, 6, 1, 5, 5, 7, 8, 9}, der.Str(12, "a@example.com")))
	case "smtputf8-empty": // the same type without a value: none
		gns = append(gns, certgen.GNOther([]int{1, 3, 6, 1, 5, 5, 7, 8, 9}, nil))
	case "upn": // another otherName type (Microsoft UPN) with a value: not an e-mail indication
		gns = append(gns, certgen.GNOther([]int{1, 3, 6, 1, 4, 1, 311, 20, 2, 3}, der.Str(12, "a@example.com")))
	case "othername-empty":
		gns = append(gns, certgen.GNOther([]int{1, 3, 6, 1, 4, 1, 311, 20, 2, 3}, nil))
	}
	s.Exts = append(s.Exts, certgen.SAN(false, gns...))
	return s.Build()
}

// ---- reference life-cycle ----------------------------------------------------------------

type lcExpect struct {
	status   lint.LintStatus
	details  string // "" = not compared
	execs    int
	panicOK  bool // CRL/OCSP: a propagating panic is also acceptable
	cfgError bool
}

func refLifeCycle(m *lcMock, scopeIn bool, cfgMode string, applies bool, inWin bool, outcome int) lcExpect {
	if m.kind == seeds.Cert && !scopeIn {
		return lcExpect{status: lint.NA}
	}
	flip := false
	if m.configurable {
		switch cfgMode {
		case "error":
			return lcExpect{status: lint.Fatal, cfgError: true}
		case "flip":
			flip = true
		}
	}
	if applies == flip { // the instance answers applies != Flip
		return lcExpect{status: lint.NA}
	}
	if !inWin {
		return lcExpect{status: lint.NE}
	}
	if outcome == 99 {
		return lcExpect{status: lint.Fatal, execs: 1, panicOK: m.kind != seeds.Cert, details: "PANIC"}
	}
	return lcExpect{status: lint.LintStatus(outcome), execs: 1, details: fmt.Sprintf("body run 1 flip=%v", flip)}
}

func checkC04(ctx *core.Ctx, rep *core.Report) {
	// E3 on every shard; E1/E2 need process-global mocks: shard 0 runs them last.
	c04E3(ctx, rep)
	// the four public lint struct types as state machines whose source, window and constructor are edited in place (c03meta.go)
	metaHistories(ctx, rep, pickSeeds(seeds.Load(), 64), "C04", true)
	if ctx.Shard == 0 {
		mocks := registerLCMocks()
		c04E1(ctx, rep, mocks)
		c04E2(ctx, rep, mocks)
	}
}

func c04E1(ctx *core.Ctx, rep *core.Report, mocks []*lcMock) {
	all := seeds.Load()
	var crlObj, ocspObj *zl.Obj
	for i := range all {
		if all[i].Kind == seeds.CRL && crlObj == nil {
			crlObj, _ = zl.Parse(seeds.CRL, all[i].DER)
		}
		if all[i].Kind == seeds.OCSP && ocspObj == nil {
			ocspObj, _ = zl.Parse(seeds.OCSP, all[i].DER)
		}
	}
	type scopedObj struct {
		name  string
		facts scopeFacts
	}
	certObjs := []scopedObj{
		{"tls(serverAuth)", scopeFacts{ekus: []string{"serverAuth"}, emailSAN: "none"}},
		{"smime(emailProtection+rfc822)", scopeFacts{ekus: []string{"emailProtection"}, emailSAN: "a@b"}},
		{"codesigning(policy)", scopeFacts{ekus: []string{"codeSigning"}, policies: []string{"2.23.140.1.4.1"}, emailSAN: "none"}},
		{"none(clientAuth)", scopeFacts{ekus: []string{"clientAuth"}, emailSAN: "none"}},
	}
	positions := []time.Time{date(2001, 1, 1), lcEff.Add(-time.Second), lcEff, date(2021, 1, 1), lcIneff.Add(-time.Second), lcIneff, date(2030, 1, 1)}
	for _, m := range mocks {
		reg, err := lint.GlobalRegistry().Filter(lint.FilterOptions{IncludeNames: []string{m.name}})
		if err != nil {
			rep.InternalError("mock filter: %v", err)
			return
		}
		m.reg = reg
		cfgModes := []string{"none"}
		if m.configurable {
			cfgModes = []string{"none", "flip", "error"}
		}
		type target struct {
			name  string
			facts scopeFacts
			obj   *zl.Obj
		}
		var targets []target
		switch m.kind {
		case seeds.Cert:
			for _, so := range certObjs {
				o, err := zl.Parse(seeds.Cert, scopeCert(so.facts, date(2021, 1, 1)))
				if err != nil {
					rep.InternalError("scope template %s rejected: %v", so.name, err)
					continue
				}
				targets = append(targets, target{so.name, so.facts, o})
			}
		case seeds.CRL:
			if crlObj != nil {
				targets = append(targets, target{"crl seed", scopeFacts{}, crlObj})
			}
		default:
			if ocspObj != nil {
				targets = append(targets, target{"ocsp seed", scopeFacts{}, ocspObj})
			}
		}
		for _, cm := range cfgModes {
			var cfg lint.Configuration
			switch cm {
			case "flip":
				cfg, _ = lint.NewConfigFromString("[" + m.name + "]\nflip = true\n")
			case "error":
				cfg, _ = lint.NewConfigFromString("[" + m.name + "]\nflip = \"not a bool\"\n")
			default:
				cfg = lint.NewEmptyConfig()
			}
			reg.SetConfiguration(cfg)
			for _, tg := range targets {
				scopeIn := refScope(m.source, tg.facts)
				for _, t := range positions {
					setDate(tg.obj, t)
					inWin := refInWindow(m.eff, m.ineff, t)
					for _, ap := range []bool{true, false} {
						for _, oc := range []int{1, 2, 3, 4, 5, 6, 7, 99} {
							lcControl = lcCtl{applies: ap, outcome: oc}
							lcLog = lcLog[:0]
							rs, p := zl.Lint(tg.obj, reg)
							rep.Inc("states")
							rep.Inc("transitions")
							rep.Inc("validated")
							rep.Inc("lifecycle_combinations")
							exp := refLifeCycle(m, scopeIn, cm, ap, inWin, oc)
							desc := fmt.Sprintf("kind=%s source=%s object=%s configurable=%v config=%s applies=%v date=%s(in window %v) body=%d", m.kind, m.source, tg.name, m.configurable, cm, ap, t.Format("2006-01-02T15:04:05"), inWin, oc)
							art := map[string]interface{}{"op": "lifecycle", "combination": desc}
							v := func(k, w string) { rep.Violate("C04|lifecycle|"+k, w+" ["+desc+"]", art) }
							execs, news := 0, 0
							for _, l := range lcLog {
								if strings.HasPrefix(l, "execute#") {
									execs++
								}
								if strings.HasPrefix(l, "new#") {
									news++
								}
							}
							if p != nil {
								if !(exp.panicOK) {
									v("panic", fmt.Sprintf("panic reached the caller: %v", p))
								}
								continue
							}
							r := rs.Results[m.name]
							if r == nil {
								v("no_result", "no result for the selected lint")
								continue
							}
							if r.Status != exp.status {
								k := "status"
								if exp.status == lint.NA && m.kind == seeds.Cert && !scopeIn {
									k = "scope_gate"
								}
								v(k, fmt.Sprintf("reference life-cycle says %s, framework returned %s (%q)", exp.status, r.Status, r.Details))
								continue
							}
							if execs != exp.execs {
								v("body_run", fmt.Sprintf("rule body ran %d time(s), reference says %d (log %v)", execs, exp.execs, lcLog))
							}
							if exp.details == "PANIC" {
								if !zl.IsPanicDetails(m.name, r.Details) {
									v("panic_details", "a panicking body must yield the recovered-panic report, got "+r.Details)
								}
							} else if exp.execs == 1 && r.Details != exp.details {
								v("result_altered", fmt.Sprintf("body returned %q on a fresh, freshly configured instance; framework reports %q", exp.details, r.Details))
							}
							if exp.cfgError && !strings.Contains(r.Details, m.name) {
								v("config_error_text", "configuration error does not name the lint: "+r.Details)
							}
							if news > 1 {
								v("instances", fmt.Sprintf("%d instances constructed for one execution", news))
							}
						}
					}
				}
			}
		}
		rep.Sample(2, map[string]interface{}{"mock": m.name, "source": string(m.source), "configurable": m.configurable})
	}
}

// c04E2: scope predicates over EKU × policy × e-mail-SAN product, on the
// scope mocks (always applicable, always "error") and on every real lint of the
// three gated sources.
func c04E2(ctx *core.Ctx, rep *core.Report, mocks []*lcMock) {
	ekuAtoms := []string{"serverAuth", "clientAuth", "emailProtection", "codeSigning", "any", "ocsp", "timeStamping", "unknown"}
	polAtoms := []string{"2.23.140.1.2.1", "2.23.140.1.2.2", "2.23.140.1.2.3", "2.23.140.1.1", "2.23.140.1.4.1", "2.23.140.1.3", "2.5.29.32.0", "1.3.6.1.4.1.99999.1"}
	for p := range smimePolicies {
		polAtoms = append(polAtoms, p)
	}
	sortStrings(polAtoms)
	var ekuSets [][]string
	ekuSets = append(ekuSets, nil)
	for i := range ekuAtoms {
		ekuSets = append(ekuSets, []string{ekuAtoms[i]})
		for j := i + 1; j < len(ekuAtoms); j++ {
			ekuSets = append(ekuSets, []string{ekuAtoms[i], ekuAtoms[j]})
			for k := j + 1; k < len(ekuAtoms); k++ {
				ekuSets = append(ekuSets, []string{ekuAtoms[i], ekuAtoms[j], ekuAtoms[k]})
			}
		}
	}
	for _, nm := range []string{"serverAuth.1", "emailProtection.1", "any.1", "kp(parent)", "any(parent)"} {
		ekuSets = append(ekuSets, []string{nm}, []string{"clientAuth", nm})
	}
	var polSets [][]string
	polSets = append(polSets, nil)
	for i := range polAtoms {
		polSets = append(polSets, []string{polAtoms[i]})
		for j := i + 1; j < len(polAtoms); j++ {
			polSets = append(polSets, []string{polAtoms[i], polAtoms[j]})
		}
	}
	// near misses of every scope-defining policy identifier, each as a policy of its own: the parent arc, a child arc, both
	// sibling arcs, the identifier under a neighbouring root — an identifier is an indication only if it IS one of the
	// reserved identifiers (prefix / length / range slips in a hand-written comparison show up here and nowhere else)
	reserved := map[string]bool{"2.23.140.1.2.1": true, "2.23.140.1.2.2": true, "2.23.140.1.2.3": true, "2.23.140.1.1": true, "2.23.140.1.4.1": true, "2.23.140.1.3": true}
	for p := range smimePolicies {
		reserved[p] = true
	}
	var resList []string
	for p := range reserved {
		resList = append(resList, p)
	}
	sortStrings(resList)
	nearSeen := map[string]bool{}
	var nearMiss []string
	for _, p := range resList {
		arcs := dotted(p)
		join := func(a []int) string {
			parts := make([]string, len(a))
			for i, v := range a {
				parts[i] = fmt.Sprint(v)
			}
			return strings.Join(parts, ".")
		}
		var cands [][]int
		cands = append(cands, append([]int{}, arcs[:len(arcs)-1]...))               // parent
		cands = append(cands, append(append([]int{}, arcs...), 1))                 // child .1
		cands = append(cands, append(append([]int{}, arcs...), 0))                 // child .0
		for _, d := range []int{-1, 1, 256} {                                       // siblings, and last arc + 256 (low byte equal)
			c := append([]int{}, arcs...)
			c[len(c)-1] += d
			if c[len(c)-1] >= 0 {
				cands = append(cands, c)
			}
		}
		for i := 2; i < len(arcs)-1; i++ { // one inner arc changed
			c := append([]int{}, arcs...)
			c[i]++
			cands = append(cands, c)
		}
		c := append([]int{}, arcs...) // neighbouring root
		c[1]++
		cands = append(cands, c)
		for _, c := range cands {
			n := join(c)
			if len(c) < 3 || reserved[n] || nearSeen[n] {
				continue
			}
			nearSeen[n] = true
			nearMiss = append(nearMiss, n)
		}
	}
	rep.Add("g_scope_policy_near_misses", int64(len(nearMiss)))
	var nearSets [][]string
	for _, n := range nearMiss {
		nearSets = append(nearSets, []string{n}, []string{"1.3.6.1.4.1.99999.1", n})
	}
	if ctx.Quick() {
		// pairs of policies only among the first 8 atoms (the gate-relevant ones)
		var ps [][]string
		for _, s := range polSets {
			if len(s) < 2 || (indexOf(polAtoms, s[0]) < 9 && indexOf(polAtoms, s[1]) < 9) {
				ps = append(ps, s)
			}
		}
		polSets = ps
	}
	// one scope mock per gated source: non-configurable, no window
	gated := []lint.LintSource{lint.CABFBaselineRequirements, lint.CABFSMIMEBaselineRequirements, lint.CABFCSBaselineRequirements}
	var names []string
	mockFor := map[lint.LintSource]string{}
	for _, m := range mocks {
		if m.kind == seeds.Cert && !m.configurable && m.eff.IsZero() && m.ineff.IsZero() {
			for _, s := range gated {
				if m.source == s {
					mockFor[s] = m.name
					names = append(names, m.name)
				}
			}
		}
	}
	var realNames []string
	realSrc := map[string]lint.LintSource{}
	for _, l := range lint.GlobalRegistry().CertificateLints().Lints() {
		if strings.HasPrefix(l.Name, "e_zz_verif") || strings.HasPrefix(l.Name, "n_zz_verif") {
			continue
		}
		for _, s := range gated {
			if l.Source == s {
				realNames = append(realNames, l.Name)
				realSrc[l.Name] = s
			}
		}
	}
	reg, err := lint.GlobalRegistry().Filter(lint.FilterOptions{IncludeNames: append(append([]string{}, names...), realNames...)})
	if err != nil {
		rep.InternalError("scope registry: %v", err)
		return
	}
	rep.Add("g_gated_real_lints", int64(len(realNames)))
	lcControl = lcCtl{applies: true, outcome: int(lint.Error)}
	type scopePoint struct {
		es, ps []string
		em     string
	}
	var points []scopePoint
	emails := []string{"none", "empty", "a@b", "smtputf8", "smtputf8-empty", "upn", "othername-empty"}
	for _, es := range ekuSets {
		for _, ps := range polSets {
			for _, em := range emails {
				points = append(points, scopePoint{es, ps, em})
			}
		}
	}
	// near-miss identifiers × the EKU sets that leave the decision to the policy (every single EKU, none, and the pairs
	// without an in-scope usage) × {no e-mail name, a mailbox}
	for _, es := range ekuSets {
		if len(es) > 2 {
			continue
		}
		if len(es) == 2 && ctx.Quick() {
			continue
		}
		for _, ps := range nearSets {
			for _, em := range []string{"none", "a@b"} {
				points = append(points, scopePoint{es, ps, em})
			}
		}
	}
	{
		for _, pt := range points {
			for range []int{0} { // (one iteration: keeps `continue` meaning "next point")
				es, ps, em := pt.es, pt.ps, pt.em
				f := scopeFacts{ekus: es, policies: ps, emailSAN: em}
				b := scopeCert(f, date(2024, 1, 1))
				o, err := zl.Parse(seeds.Cert, b)
				if err != nil {
					rep.Inc("parser_rejected")
					continue
				}
				rs, p := zl.Lint(o, reg)
				rep.Inc("states")
				rep.Inc("transitions")
				rep.Inc("scope_certs")
				if p != nil || rs == nil {
					continue
				}
				desc := fmt.Sprintf("EKU=%v policies=%v emailSAN=%s", es, ps, em)
				art := map[string]interface{}{"kind": "cert", "der_hex": hex.EncodeToString(b), "facts": desc, "op": "scope"}
				for _, s := range gated {
					in := refScope(s, f)
					rep.Inc("validated")
					if r := rs.Results[mockFor[s]]; r != nil {
						if in && r.Status != lint.Error {
							rep.Violate("C04|scope|"+string(s)+"|in_scope_not_run", fmt.Sprintf("certificate is in the scope of %s but an always-applicable %s lint returned %s [%s]", s, s, r.Status, desc), art)
						}
						if !in && r.Status != lint.NA {
							rep.Violate("C04|scope|"+string(s)+"|out_of_scope_run", fmt.Sprintf("certificate is outside the scope of %s but a %s lint returned %s instead of NA [%s]", s, s, r.Status, desc), art)
						}
					}
				}
				for _, n := range realNames {
					r := rs.Results[n]
					if r == nil {
						continue
					}
					rep.Inc("validated")
					if !refScope(realSrc[n], f) && r.Status != lint.NA {
						rep.Violate("C04|scope|"+string(realSrc[n])+"|out_of_scope_run", fmt.Sprintf("%s (source %s) returned %s on a certificate outside that document's scope [%s]", n, realSrc[n], r.Status, desc), art)
					}
				}
			}
		}
	}
	// ---- the same OBJECT, edited across a scope boundary between two lint runs -------------------------------
	// A parsed certificate is a plain struct; callers that lint what they are about to issue edit it and lint again.
	// For every ordered pair (A, B) of scope situations: parse A, lint it, overwrite the object's contents with B's
	// (same pointer, nothing else linted in between), lint again: the gates must answer for B.
	situations := []scopeFacts{
		{ekus: []string{"serverAuth"}, emailSAN: "none"},
		{ekus: []string{"emailProtection"}, emailSAN: "a@b"},
		{ekus: []string{"codeSigning"}, policies: []string{"2.23.140.1.4.1"}, emailSAN: "none"},
		{ekus: []string{"clientAuth"}, emailSAN: "none"},
		{ekus: []string{"any"}, emailSAN: "a@b"},
		{ekus: nil, emailSAN: "none"},
		{ekus: []string{"clientAuth"}, policies: []string{"2.23.140.1.5.1.1"}, emailSAN: "none"},
	}
	for _, fa := range situations {
		for _, fb := range situations {
			oa, err1 := zl.Parse(seeds.Cert, scopeCert(fa, date(2024, 1, 1)))
			bDER := scopeCert(fb, date(2024, 1, 1))
			ob, err2 := zl.Parse(seeds.Cert, bDER)
			if err1 != nil || err2 != nil {
				continue
			}
			if _, p := zl.Lint(oa, reg); p != nil {
				continue
			}
			*oa.Cert = *ob.Cert
			rs, p := zl.Lint(oa, reg)
			rep.Inc("states")
			rep.Add("transitions", 2)
			rep.Inc("scope_object_edit_sequences")
			if p != nil || rs == nil {
				continue
			}
			desc := fmt.Sprintf("object first linted as EKU=%v policies=%v emailSAN=%s, then overwritten in place with EKU=%v policies=%v emailSAN=%s and linted again",
				fa.ekus, fa.policies, fa.emailSAN, fb.ekus, fb.policies, fb.emailSAN)
			art := map[string]interface{}{"op": "scope_object_edit", "facts": desc, "second_der_hex": hex.EncodeToString(bDER)}
			for _, s := range gated {
				in := refScope(s, fb)
				rep.Inc("validated")
				if r := rs.Results[mockFor[s]]; r != nil {
					if in && r.Status != lint.Error {
						rep.Violate("C04|scope_after_edit|"+string(s)+"|in_scope_not_run", fmt.Sprintf("the object is now in the scope of %s but an always-applicable %s lint returned %s [%s]", s, s, r.Status, desc), art)
					}
					if !in && r.Status != lint.NA {
						rep.Violate("C04|scope_after_edit|"+string(s)+"|out_of_scope_run", fmt.Sprintf("the object is now outside the scope of %s but a %s lint returned %s instead of NA [%s]", s, s, r.Status, desc), art)
					}
				}
			}
			for _, n := range realNames {
				if r := rs.Results[n]; r != nil && !refScope(realSrc[n], fb) && r.Status != lint.NA {
					rep.Violate("C04|scope_after_edit|"+string(realSrc[n])+"|out_of_scope_run", fmt.Sprintf("%s (source %s) returned %s on an object that is now outside that document's scope [%s]", n, realSrc[n], r.Status, desc), art)
				}
			}
		}
	}
}

func sortStrings(s []string) {
	for i := 1; i < len(s); i++ {
		for j := i; j > 0 && s[j] < s[j-1]; j-- {
			s[j], s[j-1] = s[j-1], s[j]
		}
	}
}

func indexOf(l []string, x string) int {
	for i, v := range l {
		if v == x {
			return i
		}
	}
	return -1
}

// ---- E3: differential on the X state space ---------------------------------------------

// refDirect runs the documented life-cycle with the lint's own fresh instance.
func refDirect(o *zl.Obj, reg lint.Registry, name string) (res *lint.LintResult, panicked bool) {
	defer func() {
		if r := recover(); r != nil {
			res, panicked = nil, true
		}
	}()
	cfg := reg.GetConfiguration()
	fatal := func(err error) *lint.LintResult { return &lint.LintResult{Status: lint.Fatal, Details: err.Error()} }
	switch o.Kind {
	case seeds.Cert:
		l := reg.CertificateLints().ByName(name)
		if !inScope(l.Source, o.Cert) {
			return &lint.LintResult{Status: lint.NA}, false
		}
		in := l.Lint()
		if err := cfg.MaybeConfigure(in, name); err != nil {
			return fatal(err), false
		}
		if !in.CheckApplies(o.Cert) {
			return &lint.LintResult{Status: lint.NA}, false
		}
		if !refInWindow(l.EffectiveDate, l.IneffectiveDate, o.Cert.NotBefore) {
			return &lint.LintResult{Status: lint.NE}, false
		}
		return in.Execute(o.Cert), false
	case seeds.CRL:
		l := reg.RevocationListLints().ByName(name)
		in := l.Lint()
		if err := cfg.MaybeConfigure(in, name); err != nil {
			return fatal(err), false
		}
		if !in.CheckApplies(o.CRL) {
			return &lint.LintResult{Status: lint.NA}, false
		}
		if !refInWindow(l.EffectiveDate, l.IneffectiveDate, o.CRL.ThisUpdate) {
			return &lint.LintResult{Status: lint.NE}, false
		}
		return in.Execute(o.CRL), false
	default:
		l := reg.OcspResponseLints().ByName(name)
		in := l.Lint()
		if err := cfg.MaybeConfigure(in, name); err != nil {
			return fatal(err), false
		}
		if !in.CheckApplies(o.OCSP) {
			return &lint.LintResult{Status: lint.NA}, false
		}
		if !refInWindow(l.EffectiveDate, l.IneffectiveDate, o.OCSP.NextUpdate) {
			return &lint.LintResult{Status: lint.NE}, false
		}
		return in.Execute(o.OCSP), false
	}
}

func c04Diff(o *zl.Obj, reg lint.Registry) [][2]string {
	var bad [][2]string
	rs, p := zl.Lint(o, reg)
	if p != nil || rs == nil {
		return nil // C01/C02
	}
	for n, r := range rs.Results {
		if r == nil {
			continue
		}
		exp, pan := refDirect(o, reg, n)
		if pan {
			continue // C02
		}
		if exp == nil {
			continue
		}
		if exp.Status != r.Status {
			bad = append(bad, [2]string{"C04|diff|" + n + "|status", fmt.Sprintf("%s: the lint's own life-cycle on a fresh instance gives %s, the framework reports %s", n, exp.Status, r.Status)})
			continue
		}
		if exp.Details != r.Details && canonTokens(exp.Details) != canonTokens(r.Details) {
			// (details whose list order varies between runs — map iteration — are C05's business:
			// both sides are compared as token multisets)
			bad = append(bad, [2]string{"C04|diff|" + n + "|details", fmt.Sprintf("%s: body returned details %q, the framework reports %q", n, exp.Details, r.Details)})
		}
	}
	return bad
}

// canonTokens: the details text as a sorted multiset of its comma/blank separated tokens.
func canonTokens(s string) string {
	t := strings.FieldsFunc(s, func(r rune) bool {
		return r == ',' || r == ' ' || r == '[' || r == ']' || r == '(' || r == ')' || r == ';'
	})
	sortStrings(t)
	return strings.Join(t, " ")
}

func c04E3(ctx *core.Ctx, rep *core.Report) {
	all := seeds.Load()
	nth := 16
	if !ctx.Quick() {
		nth = 2
	}
	sel := pickSeeds(all, argInt(ctx, "nth", nth))
	g := lint.GlobalRegistry()
	xstate.Explore(ctx, rep, xstate.Options{Seeds: sel, Depth: 1, NoCompound: ctx.Quick()}, func(st *xstate.State) {
		rep.Inc("validated")
		rep.Inc("diff_states")
		for _, b := range c04Diff(st.Obj, g) {
			rep.Violate(b[0], b[1]+" [seed "+st.Seed.Name+" path "+strings.Join(st.Path, ",")+"]", st.Replay())
		}
		rep.Sample(2, map[string]interface{}{"seed": st.Seed.Name, "path": st.Path})
	})
}

func replayC04(rp map[string]interface{}) (string, error) {
	if op, _ := rp["op"].(string); op != "" {
		return "", fmt.Errorf("op replay %s is re-run by the check itself", op)
	}
	st, err := stateFromReplay(rp)
	if err != nil {
		return "", err
	}
	if bad := c04Diff(st.Obj, lint.GlobalRegistry()); len(bad) > 0 {
		return bad[0][0] + ": " + bad[0][1], nil
	}
	return "", nil
}
