//go:build verifsched

package oracle

import (
	"bytes"
	"encoding/json"
	"fmt"
	"os"
	"sort"
	"strings"

	"github.com/zmap/zlint/v3/lint"
	"github.com/zmap/zlint/v3/lint/verifsync"

	"verif/core"
	"verif/sched"
	"verif/seeds"
	"verif/srcmodel"
	"verif/zl"
)

func init() {
	core.Checks["C10"] = checkC10
}

type c10Op struct {
	desc string
	run  func() string
}

type c10Scenario struct {
	name    string
	threads [][]c10Op
}

func opLint(name string, sd *seeds.Seed, reg lint.Registry) c10Op {
	return c10Op{"lint(" + name + ")", func() string {
		// every call lints its own freshly parsed object: distinct objects, as the property says
		o, err := zl.Parse(sd.Kind, sd.DER)
		if err != nil {
			return "parse error"
		}
		rs, p := zl.Lint(o, reg)
		if p != nil {
			return fmt.Sprintf("PANIC %v", p)
		}
		return zl.Vector(rs, true)
	}}
}

func opFilter(desc string, reg lint.Registry, o lint.FilterOptions) c10Op {
	return c10Op{"filter(" + desc + ")", func() string {
		r, err := reg.Filter(o)
		if err != nil {
			return "error: " + err.Error()
		}
		return strings.Join(r.Names(), ",") + "|" + fmt.Sprint(len(r.Sources()))
	}}
}

func opListing(reg lint.Registry, probe string) c10Op {
	return c10Op{"listing", func() string {
		var sb strings.Builder
		sb.WriteString(strings.Join(reg.Names(), ","))
		s := reg.Sources()
		sort.Sort(s)
		fmt.Fprintf(&sb, "|%v", s)
		if l := reg.ByName(probe); l != nil {
			sb.WriteString("|" + l.Name)
		}
		fmt.Fprintf(&sb, "|%d", len(reg.BySource(lint.CABFBaselineRequirements)))
		fmt.Fprintf(&sb, "|%d/%d/%d", len(reg.CertificateLints().Lints()), len(reg.RevocationListLints().Lints()), len(reg.OcspResponseLints().Lints()))
		// the per-kind lookup interfaces
		fmt.Fprintf(&sb, "|%d,%d,%d", len(reg.CertificateLints().Names()), len(reg.RevocationListLints().Names()), len(reg.OcspResponseLints().Names()))
		fmt.Fprintf(&sb, "|%d,%d,%d", len(reg.CertificateLints().Sources()), len(reg.RevocationListLints().Sources()), len(reg.OcspResponseLints().Sources()))
		fmt.Fprintf(&sb, "|%d,%d", len(reg.CertificateLints().BySource(lint.CABFBaselineRequirements)), len(reg.RevocationListLints().BySource(lint.CABFBaselineRequirements)))
		if l := reg.CertificateLints().ByName(probe); l != nil {
			sb.WriteString("|" + l.Name)
		}
		var buf bytes.Buffer
		reg.WriteJSON(&buf)
		fmt.Fprintf(&sb, "|json:%016x", core.Hash64(buf.Bytes()))
		b, err := reg.DefaultConfiguration()
		fmt.Fprintf(&sb, "|cfg:%d:%v", len(b), err)
		return sb.String()
	}}
}

func c10Registry(ctx *core.Ctx) (lint.Registry, string, error) {
	g := lint.GlobalRegistry()
	if ctx.Args["registry"] == "global" || (!ctx.Quick() && ctx.Args["registry"] != "small") {
		return g, "global", nil
	}
	// quick: a registry of every 9th lint plus the configurable ones and one CRL / OCSP lint
	var names []string
	all := g.Names()
	for i := 0; i < len(all); i += 9 {
		names = append(names, all[i])
	}
	names = append(names, ConfigurableLints()...)
	names = append(names, c10CensusLints(all)...)
	if l := g.RevocationListLints().Lints(); len(l) > 0 {
		names = append(names, l[0].Name)
	}
	if l := g.OcspResponseLints().Lints(); len(l) > 0 {
		names = append(names, l[0].Name)
	}
	r, err := g.Filter(lint.FilterOptions{IncludeNames: names})
	if err != nil {
		return nil, "", err
	}
	return r, fmt.Sprintf("filtered(%d lints)", len(r.Names())), nil
}

// c10CensusLints: lints registered in files where the instrumenter inserted
// yields (they touch possibly-mutated package-level state); if such state lives
// in util or lint, a broader sample (every 3rd lint) rides along.
func c10CensusLints(all []string) []string {
	path := os.Getenv("VERIF_SCHED_CENSUS")
	b, err := os.ReadFile(path)
	if err != nil {
		return nil
	}
	var c struct {
		YieldFiles []string `json:"files_with_yields"`
	}
	if json.Unmarshal(b, &c) != nil {
		return nil
	}
	cen, err := srcmodel.TakeCensus(seeds.RepoDir())
	if err != nil {
		return nil
	}
	var out []string
	broad := false
	for _, f := range c.YieldFiles {
		if !strings.HasPrefix(f, "lints/") {
			if f != "resultset.go" && f != "lint/profile.go" {
				broad = true
			}
			continue
		}
		for _, r := range cen.Regs {
			if r.File == f && r.Resolved {
				out = append(out, r.Name)
			}
		}
	}
	if broad {
		for i := 0; i < len(all); i += 3 {
			out = append(out, all[i])
		}
	}
	return out
}

func c10Scenarios(reg lint.Registry, all []seeds.Seed) []c10Scenario {
	var certs, crls []*seeds.Seed
	for i := range all {
		switch all[i].Kind {
		case seeds.Cert:
			certs = append(certs, &all[i])
		case seeds.CRL:
			crls = append(crls, &all[i])
		}
	}
	// objects that differ as much as the corpus allows under this registry: greedy choice by new (lint, status)
	// pairs — a TLS leaf, an out-of-scope certificate, a CA … — so that state keyed by "the last certificate"
	// or by a scope decision collides between threads
	div := c10Diverse(reg, certs, 4)
	a, b, c, d := div[0], div[1], div[2], div[3]
	names := reg.Names()
	probe := names[len(names)/2]
	f1 := lint.FilterOptions{IncludeSources: lint.SourceList{lint.CABFBaselineRequirements, lint.RFC5280}}
	f2 := lint.FilterOptions{ExcludeNames: []string{names[0], " " + names[len(names)-1] + " "}}
	sc := []c10Scenario{
		{"lint a ∥ lint b", [][]c10Op{{opLint("a", a, reg)}, {opLint("b", b, reg)}}},
		{"lint a ∥ lint a' (same bytes, two objects)", [][]c10Op{{opLint("a", a, reg)}, {opLint("a'", a, reg)}}},
		{"lint a ∥ filter", [][]c10Op{{opLint("a", a, reg)}, {opFilter("sources", reg, f1)}}},
		{"lint a ∥ listing", [][]c10Op{{opLint("a", a, reg)}, {opListing(reg, probe)}}},
		{"listing ∥ listing", [][]c10Op{{opListing(reg, probe)}, {opListing(reg, names[0])}}},
		{"filter ∥ filter", [][]c10Op{{opFilter("sources", reg, f1)}, {opFilter("names", reg, f2)}}},
		{"lint a; lint c ∥ lint b", [][]c10Op{{opLint("a", a, reg), opLint("c", c, reg)}, {opLint("b", b, reg)}}},
		{"lint a ∥ lint b ∥ listing", [][]c10Op{{opLint("a", a, reg)}, {opLint("b", b, reg)}, {opListing(reg, probe)}}},
	}
	sc = append(sc,
		c10Scenario{"lint a ∥ lint d", [][]c10Op{{opLint("a", a, reg)}, {opLint("d", d, reg)}}},
		c10Scenario{"lint b ∥ lint c", [][]c10Op{{opLint("b", b, reg)}, {opLint("c", c, reg)}}},
		c10Scenario{"lint b; lint a ∥ lint d; lint c", [][]c10Op{{opLint("b", b, reg), opLint("a", a, reg)}, {opLint("d", d, reg), opLint("c", c, reg)}}},
	)
	// two filters whose source lists OVERLAP (same first source, different second one): whatever Filter derives from the
	// registry's per-source index is derived from the same entry by both
	if srcs := sortedSources(reg); len(srcs) >= 3 {
		cnt := func(s lint.LintSource) int { return len(reg.BySource(s)) }
		top := append(lint.SourceList{}, srcs...)
		sort.SliceStable(top, func(i, j int) bool { return cnt(top[i]) > cnt(top[j]) })
		A, B, C := top[0], top[1], top[2]
		fab := lint.FilterOptions{IncludeSources: lint.SourceList{A, B}}
		fac := lint.FilterOptions{IncludeSources: lint.SourceList{A, C}}
		fba := lint.FilterOptions{IncludeSources: lint.SourceList{B, A}}
		sc = append(sc,
			c10Scenario{"filter [A,B] ∥ filter [A,C]", [][]c10Op{{opFilter("A,B", reg, fab)}, {opFilter("A,C", reg, fac)}}},
			c10Scenario{"filter [A,B] ∥ filter [B,A] ∥ lint a", [][]c10Op{{opFilter("A,B", reg, fab)}, {opFilter("B,A", reg, fba)}, {opLint("a", a, reg)}}},
		)
	}
	if len(crls) > 0 {
		sc = append(sc, c10Scenario{"lint crl ∥ lint a ∥ filter", [][]c10Op{{opLint("crl", crls[0], reg)}, {opLint("a", a, reg)}, {opFilter("names", reg, f2)}}})
	}
	return sc
}

// c10Focused builds small scenarios around the fine-grained yields (accesses to possibly-mutated package-level
// state outside the per-lint loop): which lints reach such a yield is discovered dynamically (every lint alone,
// one thread, on a diverse object set, reading the scheduling points back); a registry of at most four of
// them — different yield sites first — keeps an execution at a few dozen points, so that ALL interleavings
// with two preemptions of every ordered pair of three diverse objects are explored quickly. The broad
// scenarios over bigger registries follow; with thousands of fine points they may end at the deadline.
func c10Focused(all []seeds.Seed, rep *core.Report) []c10Scenario {
	g := lint.GlobalRegistry()
	var certs []*seeds.Seed
	for i := range all {
		if all[i].Kind == seeds.Cert {
			certs = append(certs, &all[i])
		}
	}
	if len(certs) == 0 {
		return nil
	}
	probe := c10Diverse(g, certs, 7)
	hits := map[string]map[string]bool{}
	for _, l := range g.CertificateLints().Lints() {
		r1, err := g.Filter(lint.FilterOptions{IncludeNames: []string{l.Name}})
		if err != nil {
			continue
		}
		for _, sd := range probe {
			op := opLint("probe", sd, r1)
			x := sched.Execute(func(r *sched.Run) { verifsync.S = r }, func() { verifsync.S = nil }, []func(){func() { op.run() }}, nil, false)
			for _, p := range x.Points {
				if strings.HasPrefix(p.Kind, "yield:") && !strings.HasPrefix(p.Kind, "yield:resultset.go") {
					if hits[l.Name] == nil {
						hits[l.Name] = map[string]bool{}
					}
					hits[l.Name][p.Kind] = true
				}
			}
		}
	}
	if len(hits) == 0 {
		return nil
	}
	var names []string
	for n := range hits {
		names = append(names, n)
	}
	sort.Strings(names)
	seen := map[string]bool{}
	var chosen []string
	for len(chosen) < 4 {
		best, bestNew := "", -1
		for _, n := range names {
			k := 0
			for s := range hits[n] {
				if !seen[s] {
					k++
				}
			}
			used := false
			for _, c := range chosen {
				if c == n {
					used = true
				}
			}
			if !used && k > bestNew {
				best, bestNew = n, k
			}
		}
		if best == "" {
			break
		}
		chosen = append(chosen, best)
		for s := range hits[best] {
			seen[s] = true
		}
	}
	reg, err := g.Filter(lint.FilterOptions{IncludeNames: chosen})
	if err != nil {
		return nil
	}
	rep.Note("focused scenarios: %d lints reach fine-grained yields (%d sites); registry %v", len(hits), len(seen), chosen)
	// objects: diverse under the focused registry AND diverse under the global registry (scope decisions,
	// key types, CA vs leaf … show up there): state keyed by "the last certificate" or by a scope decision gives
	// a visibly wrong answer only between objects on different sides of such a divide
	objs := c10Diverse(reg, certs, 3)
	for _, extra := range probe {
		dup := false
		for _, o := range objs {
			if o == extra {
				dup = true
			}
		}
		if !dup {
			objs = append(objs, extra)
		}
	}
	for i, o := range objs {
		rep.Note("focused object o%d = %s: %s", i, o.Name, strings.ReplaceAll(opLint("o", o, reg).run(), "\n", " "))
	}
	var sc []c10Scenario
	for i, a := range objs {
		for j, b := range objs {
			sc = append(sc, c10Scenario{fmt.Sprintf("focused: lint o%d ∥ lint o%d", i, j), [][]c10Op{{opLint(fmt.Sprintf("o%d", i), a, reg)}, {opLint(fmt.Sprintf("o%d", j), b, reg)}}})
		}
	}
	sc = append(sc, c10Scenario{"focused: lint o0 ∥ lint o1 ∥ lint o2", [][]c10Op{{opLint("o0", objs[0], reg)}, {opLint("o1", objs[1], reg)}, {opLint("o2", objs[2], reg)}}})
	return sc
}

func checkC10(ctx *core.Ctx, rep *core.Report) {
	reg, rdesc, err := c10Registry(ctx)
	if err != nil {
		rep.InternalError("registry: %v", err)
		return
	}
	rep.Note("shared registry: %s", rdesc)
	all := seeds.Load()
	// focused scenarios first: they are small and must complete before any internal deadline
	scs := append(append(c10Focused(all, rep), c10FocusedOtherKinds(all, rep)...), c10Scenarios(reg, all)...)
	bound := argInt(ctx, "bound", 2)
	coarseBound := argInt(ctx, "coarse", 1)
	rlockCoarse := ctx.Args["rlock_coarse"] == "1"
	isCoarse := func(kind string) bool {
		if strings.HasPrefix(kind, "yield:resultset.go") {
			return true // the per-lint loop yields: a coarse net, not a shared-state access
		}
		if rlockCoarse && (kind == "RLock" || kind == "RUnlock") {
			return true // no writer lock exists in the sources: read locks never block and commute
		}
		return false
	}
	maxExec := int64(argInt(ctx, "maxexec", 0))
	only := ctx.Args["scenario"]
	poisoned := false
	for si, sc := range scs {
		if only != "" && only != fmt.Sprint(si) {
			continue
		}
		if poisoned {
			rep.Cap("exploration stopped after a deadlock (shared lock state poisoned)")
			break
		}
		// sequential reference: every operation alone, no scheduler
		ref := make([][]string, len(sc.threads))
		for ti, ops := range sc.threads {
			for _, op := range ops {
				ref[ti] = append(ref[ti], op.run())
			}
		}
		got := make([][]string, len(sc.threads))
		bodies := make([]func(), len(sc.threads))
		for ti := range sc.threads {
			ti := ti
			bodies[ti] = func() {
				for _, op := range sc.threads[ti] {
					got[ti] = append(got[ti], op.run())
				}
			}
		}
		run := func(prefix []int) *sched.Execution {
			for i := range got {
				got[i] = nil
			}
			return sched.Execute(func(r *sched.Run) { verifsync.S = r }, func() { verifsync.S = nil }, bodies, prefix, false)
		}
		// determinism of replay: the base execution twice
		x1 := run(nil)
		x2 := run(nil)
		if fmt.Sprint(x1.Points) != fmt.Sprint(x2.Points) {
			rep.InternalError("scenario %q: two runs of the same schedule differ (nondeterminism not owned by the scheduler)", sc.name)
			continue
		}
		if si == 0 && ctx.Shard == 0 {
			kinds := map[string]int{}
			for _, p := range x1.Points {
				k := p.Kind
				if i := strings.IndexByte(k, ':'); i > 0 {
					k = k[:i]
				}
				kinds[k]++
			}
			rep.Note("scheduling points of the base execution of %q: %v", sc.name, kinds)
		}
		outcomes := map[string]bool{}
		ex := &sched.Explorer{CoarseBound: coarseBound, IsCoarse: isCoarse, Bound: bound, MaxExec: maxExec, Run: run, Shard: ctx.Shard, NShards: ctx.NShards, Deadline: ctx.Expired}
		ex.Check = func(x *sched.Execution) bool {
			rep.Inc("states")
			rep.Inc("validated")
			art := func() map[string]interface{} {
				return map[string]interface{}{"op": "schedule", "scenario": sc.name, "scenario_index": si, "choices": compress(x.Choices), "registry": rdesc}
			}
			if x.Diverged != "" {
				rep.InternalError("scenario %q: %s", sc.name, x.Diverged)
				return false
			}
			if x.Deadlock {
				rep.Violate("C10|deadlock|"+sc.name, "deadlock: "+x.DeadDesc+" [scenario "+sc.name+"]", art())
				// the blocked threads never release what they hold: the lock state of the shared
				// registry is poisoned for this process, so this worker stops here
				poisoned = true
				return false
			}
			for t, p := range x.Panics {
				rep.Violate("C10|panic|"+sc.name, fmt.Sprintf("thread %d panicked: %.300s [scenario %s]", t, p, sc.name), art())
			}
			sig := ""
			for ti := range ref {
				for oi := range ref[ti] {
					g := "<missing>"
					if oi < len(got[ti]) {
						g = got[ti][oi]
					}
					sig += fmt.Sprintf("%016x.", core.HashStr(g))
					if g != ref[ti][oi] {
						d := "results differ"
						if dl := diffVectors(ref[ti][oi], g); len(dl) > 0 {
							d = fmt.Sprintf("%s: alone %q, concurrently %q", dl[0][0], dl[0][1], dl[0][2])
						}
						rep.Violate("C10|result_differs|"+sc.threads[ti][oi].desc, fmt.Sprintf("%s returns something else than the same call made alone (%s) [scenario %s, %d preemptions]", sc.threads[ti][oi].desc, d, sc.name, preemptions(x)), art())
					}
				}
			}
			outcomes[sig] = true
			rep.Tab("executions_by_preemptions", fmt.Sprint(preemptions(x)))
			return true
		}
		ex.Explore()
		rep.Add("transitions", ex.Stats.Points)
		rep.Add("executions", ex.Stats.Executions)
		rep.Add("bound_pruned", ex.Stats.BoundPruned)
		rep.Tab("scenario_executions", sc.name+fmt.Sprintf(" [%d threads, ≤%d points]", len(sc.threads), ex.Stats.MaxPoints))
		rep.Tables["scenario_executions"][sc.name+fmt.Sprintf(" [%d threads, ≤%d points]", len(sc.threads), ex.Stats.MaxPoints)] = ex.Stats.Executions
		for o := range outcomes {
			rep.SetAdd("distinct_outcomes", fmt.Sprint(si)+":"+o)
		}
		if ex.Stats.Capped {
			rep.Cap("scenario %q: exploration capped after %d executions (bound %d not completed)", sc.name, ex.Stats.Executions, bound)
		}
		rep.Sample(4, map[string]interface{}{"scenario": sc.name, "threads": len(sc.threads), "bound": bound, "example_schedule": compress(x1.Choices)})
	}
}

func preemptions(x *sched.Execution) int {
	n := 0
	for j := range x.Choices {
		if x.Choices[j] != 0 && x.Points[j].RunningStillEnabled {
			n++
		}
	}
	return n
}

// compress: the non-default choices as "step:choice" (all other steps are 0).
func compress(ch []int) []string {
	var out []string
	for i, c := range ch {
		if c != 0 {
			out = append(out, fmt.Sprintf("%d:%d", i, c))
		}
	}
	out = append(out, fmt.Sprintf("len=%d", len(ch)))
	return out
}

// c10FocusedOtherKinds: the same discovery for CRL and OCSP lints — every lint of those kinds alone on every CRL / OCSP seed
// and on its wide-serial variant (entry serials wider than 64 bits: the values a lint cannot keep in a machine word);
// lints that reach a fine-grained yield give scenarios lint oi ∥ lint oj over the objects that reach it.
func c10FocusedOtherKinds(all []seeds.Seed, rep *core.Report) []c10Scenario {
	g := lint.GlobalRegistry()
	var objs []*seeds.Seed
	for i := range all {
		if all[i].Kind == seeds.Cert {
			continue
		}
		objs = append(objs, &all[i])
		if w := wideSerials(all[i].Kind, all[i].DER); w != nil {
			objs = append(objs, &seeds.Seed{Name: all[i].Name + "+wide-serials", Kind: all[i].Kind, DER: w})
		}
	}
	var names []string
	for _, l := range g.RevocationListLints().Lints() {
		names = append(names, l.Name)
	}
	for _, l := range g.OcspResponseLints().Lints() {
		names = append(names, l.Name)
	}
	hitLints := map[string]bool{}
	hitObjs := map[int]int{}
	for _, n := range names {
		r1, err := g.Filter(lint.FilterOptions{IncludeNames: []string{n}})
		if err != nil {
			continue
		}
		for oi, sd := range objs {
			op := opLint("probe", sd, r1)
			x := sched.Execute(func(r *sched.Run) { verifsync.S = r }, func() { verifsync.S = nil }, []func(){func() { op.run() }}, nil, false)
			for _, p := range x.Points {
				if strings.HasPrefix(p.Kind, "yield:") && !strings.HasPrefix(p.Kind, "yield:resultset.go") {
					hitLints[n] = true
					hitObjs[oi]++
				}
			}
		}
	}
	if len(hitLints) == 0 {
		return nil
	}
	var chosen []string
	for n := range hitLints {
		chosen = append(chosen, n)
	}
	sort.Strings(chosen)
	reg, err := g.Filter(lint.FilterOptions{IncludeNames: chosen})
	if err != nil {
		return nil
	}
	// the objects with most yield hits, at most four
	var idxs []int
	for oi := range hitObjs {
		idxs = append(idxs, oi)
	}
	sort.Slice(idxs, func(a, b int) bool {
		if hitObjs[idxs[a]] != hitObjs[idxs[b]] {
			return hitObjs[idxs[a]] > hitObjs[idxs[b]]
		}
		return idxs[a] < idxs[b]
	})
	if len(idxs) > 4 {
		idxs = idxs[:4]
	}
	rep.Note("focused scenarios (CRL/OCSP): %d lints reach fine-grained yields on %d objects; registry %v", len(hitLints), len(hitObjs), chosen)
	var sc []c10Scenario
	for _, a := range idxs {
		for _, b := range idxs {
			sc = append(sc, c10Scenario{fmt.Sprintf("focused: lint %s ∥ lint %s", objs[a].Name, objs[b].Name),
				[][]c10Op{{opLint(objs[a].Name, objs[a], reg)}, {opLint(objs[b].Name+"'", objs[b], reg)}}})
		}
	}
	return sc
}
