package oracle

import (
	"bytes"
	"crypto/ecdsa"
	"crypto/elliptic"
	"crypto/rand"
	"crypto/sha256"
	"encoding/binary"
	"fmt"
	"math/big"
	"strings"

	"github.com/zmap/zlint/v3/lint"

	"verif/certgen"
	"verif/core"
	"verif/der"
	"verif/keys"
	"verif/seeds"
	"verif/xstate"
	"verif/zl"
)

func init() {
	core.Checks["C09"] = checkC09
	core.Replayers["C09"] = replayC09
}

// sigNode returns the signature BIT STRING of a certificate tree.
func sigNode(root *der.Node) *der.Node {
	if root == nil || len(root.Children) != 3 {
		return nil
	}
	s := root.Children[2]
	if s.Class != 0 || s.Tag != 3 {
		return nil
	}
	return s
}

type sigVariant struct {
	name string
	sig  []byte
}

// sigVariants: same length, different bits.
func sigVariants(orig []byte, seed int64, allPositions bool) []sigVariant {
	n := len(orig)
	var out []sigVariant
	mk := func(name string, f func(b []byte)) {
		b := append([]byte(nil), orig...)
		f(b)
		if !bytes.Equal(b, orig) {
			out = append(out, sigVariant{name, b})
		}
	}
	mk("all-zero", func(b []byte) {
		for i := range b {
			b[i] = 0
		}
	})
	mk("all-ff", func(b []byte) {
		for i := range b {
			b[i] = 0xff
		}
	})
	mk("first-bit", func(b []byte) { b[0] ^= 0x80 })
	mk("last-bit", func(b []byte) { b[n-1] ^= 0x01 })
	mk("random", func(b []byte) {
		var ctr [16]byte
		binary.BigEndian.PutUint64(ctr[:8], uint64(seed))
		for i := 0; i < n; i += 32 {
			binary.BigEndian.PutUint64(ctr[8:], uint64(i))
			h := sha256.Sum256(ctr[:])
			copy(b[i:], h[:])
		}
	})
	// well-formed ECDSA-Sig-Values of the same total length: SEQUENCE { INTEGER r, INTEGER s } with every
	// split of the available bytes between r and s (a lint that decodes the value instead of measuring it
	// answers differently on an unbalanced split). Only where the length admits the short forms.
	if n >= 8 && n <= 2+127 {
		body := n - 2
		for a := 1; a <= body-5; a++ {
			b := body - 4 - a
			if b < 1 || a > 127 || b > 127 {
				continue
			}
			a, b := a, b
			mk(fmt.Sprintf("sigvalue-r%d-s%d", a, b), func(x []byte) {
				x[0], x[1], x[2], x[3] = 0x30, byte(body), 0x02, byte(a)
				for i := 0; i < a; i++ {
					x[4+i] = 0x11
				}
				x[4+a], x[5+a] = 0x02, byte(b)
				for i := 0; i < b; i++ {
					x[6+a+i] = 0x22
				}
			})
		}
	}
	step := 1
	if !allPositions {
		step = n/8 + 1
	}
	for i := 0; i < n; i += step {
		i := i
		mk(fmt.Sprintf("zero-byte-%d", i), func(b []byte) {
			if b[i] == 0 {
				b[i] = 0x55
			} else {
				b[i] = 0
			}
		})
	}
	return out
}

func c09Compare(base, alt *zl.Obj) [][2]string {
	g := lint.GlobalRegistry()
	a, p1 := zl.Lint(base, g)
	b, p2 := zl.Lint(alt, g)
	if p1 != nil || p2 != nil || a == nil || b == nil {
		if (p1 == nil) != (p2 == nil) {
			return [][2]string{{"C09|panic_depends_on_signature", fmt.Sprintf("panic only for one signature value: %v / %v", p1, p2)}}
		}
		return nil
	}
	var bad [][2]string
	for n, r := range a.Results {
		q := b.Results[n]
		if r == nil || q == nil {
			continue
		}
		if r.Status != q.Status {
			bad = append(bad, [2]string{"C09|" + n + "|status", fmt.Sprintf("%s: %s with the original signature, %s with the replaced one", n, r.Status, q.Status)})
		} else if r.Details != q.Details && canonTokens(r.Details) != canonTokens(q.Details) {
			bad = append(bad, [2]string{"C09|" + n + "|details", fmt.Sprintf("%s: details change with the signature value: %q vs %q", n, r.Details, q.Details)})
		}
	}
	return bad
}

func c09State(st *xstate.State, seed int64, allPos bool, rep *core.Report) (out [][3]string) {
	if st.Seed.Kind != seeds.Cert || st.Obj.Cert == nil {
		return nil
	}
	c := st.Obj.Cert
	if bytes.Equal(c.RawIssuer, c.RawSubject) {
		if rep != nil {
			rep.Inc("skipped_self_issued")
		}
		return nil
	}
	root, err := der.Parse(st.DER)
	if err != nil {
		return nil
	}
	sn := sigNode(root)
	if sn == nil {
		return nil
	}
	// the BIT STRING content as raw bytes (ECDSA signatures parse as wrapped DER)
	enc := sn.Encode()
	plain, rest, perr := splitTLV(enc)
	if perr != nil || len(rest) != 0 || len(plain) < 2 {
		return nil
	}
	orig := plain[1:]
	variants := sigVariants(orig, seed, allPos)
	if sn.Wrapped {
		// ECDSA: additionally non-DER bytes of equal length are covered by all-zero/all-ff/random above
		if rep != nil {
			rep.Inc("ecdsa_signature_states")
		}
	}
	for _, v := range variants {
		alt := root.Clone()
		an := sigNode(alt)
		an.Wrapped, an.BitPad, an.Children = false, false, nil
		an.Content = append([]byte{plain[0]}, v.sig...)
		b := alt.Encode()
		o, err := zl.Parse(seeds.Cert, b)
		if err != nil {
			if rep != nil {
				rep.Inc("variant_rejected_by_parser")
			}
			continue
		}
		if !bytes.Equal(o.Cert.RawTBSCertificate, c.RawTBSCertificate) {
			continue
		}
		if rep != nil {
			rep.Inc("transitions")
			rep.Inc("validated")
			rep.Inc("signature_variants")
		}
		for _, d := range c09Compare(st.Obj, o) {
			out = append(out, [3]string{d[0], d[1] + " [variant " + v.name + "]", fmt.Sprintf("%x", b)})
		}
	}
	return out
}

func splitTLV(b []byte) (content, rest []byte, err error) {
	if len(b) < 2 {
		return nil, nil, fmt.Errorf("short")
	}
	off := 2
	l := int(b[1])
	if l&0x80 != 0 {
		nb := l & 0x7f
		l = 0
		for i := 0; i < nb; i++ {
			l = l<<8 | int(b[2+i])
		}
		off += nb
	}
	if off+l > len(b) {
		return nil, nil, fmt.Errorf("trunc")
	}
	return b[off : off+l], b[off+l:], nil
}

func checkC09(ctx *core.Ctx, rep *core.Report) {
	all := seeds.Load()
	nth := 6
	if !ctx.Quick() {
		nth = 1
	}
	sel := pickSeeds(all, argInt(ctx, "nth", nth))
	var certs []seeds.Seed
	for _, s := range sel {
		if s.Kind == seeds.Cert {
			certs = append(certs, s)
		}
	}
	// own templates: a genuine signature by a different key of the same type and size
	if ctx.Shard == 0 {
		c09Resigned(rep)
	}
	c09Donors(ctx, rep, certs)
	c09Fragments(ctx, rep, all, certs) // every corpus certificate donates its elements, in both tiers
	cnt := 0
	xstate.Explore(ctx, rep, xstate.Options{Seeds: certs, Depth: 0}, func(st *xstate.State) {
		cnt++
		allPos := !ctx.Quick() || cnt%4 == 0
		for _, v := range c09State(st, ctx.Seed, allPos, rep) {
			rp := st.Replay()
			rp["variant_der_hex"] = v[2]
			rep.Violate(v[0], v[1]+" [seed "+st.Seed.Name+"]", rp)
		}
		rep.Sample(2, map[string]interface{}{"seed": st.Seed.Name, "variants": "all-zero, all-ff, bit flips, random, per-byte"})
	})
	// depth-1 neighbours of a subset (thorough: every 8th seed; quick: every 48th)
	n2 := 48
	if !ctx.Quick() {
		n2 = 8
	}
	var sub []seeds.Seed
	for i, s := range certs {
		if i%n2 == 0 {
			sub = append(sub, s)
		}
	}
	xstate.Explore(ctx, rep, xstate.Options{Seeds: sub, Depth: 1, NoCompound: ctx.Quick()}, func(st *xstate.State) {
		if len(st.Path) == 0 {
			return
		}
		for _, v := range c09State(st, ctx.Seed, false, rep) {
			rp := st.Replay()
			rp["variant_der_hex"] = v[2]
			rep.Violate(v[0], v[1]+" [seed "+st.Seed.Name+" path "+strings.Join(st.Path, ",")+"]", rp)
		}
	})
}

// c09Resigned: the to-be-signed certificate signed with two different keys of
// the same type and size (the pre-issuance linting scenario of the property).
func c09Resigned(rep *core.Report) {
	for _, bits := range []int{1024, 2048} {
		s := tlsLeafSpec(date(2023, 6, 1), date(2024, 6, 1))
		t := s.Tree()
		tbs := t.Children[0].Encode()
		k1 := keys.RSA(bits)
		k2 := keys.RSA(bits - 1)
		sig1 := keys.SignSHA256RSA(k1, tbs)
		sig2 := keys.SignSHA256RSA(k2, tbs)
		if len(sig2) != len(sig1) {
			sig2 = append(make([]byte, len(sig1)-len(sig2)), sig2...)
		}
		mk := func(sig []byte) *zl.Obj {
			tt := t.Clone()
			tt.Children[2] = der.Bits(sig, 0)
			o, err := zl.Parse(seeds.Cert, tt.Encode())
			if err != nil {
				return nil
			}
			return o
		}
		a, b := mk(sig1), mk(sig2)
		if a == nil || b == nil {
			rep.Hole("re-signed template rejected by the parser")
			continue
		}
		rep.Inc("states")
		rep.Inc("validated")
		rep.Inc("resigned_templates")
		for _, d := range c09Compare(a, b) {
			rep.Violate(d[0], d[1]+fmt.Sprintf(" [TLS-leaf template signed by two different %d-bit keys]", bits), map[string]interface{}{"op": "resigned", "bits": bits})
		}
	}
	c09OwnKeySigned(rep)
	_ = big.NewInt
	_ = certgen.OIDCN
}

// c09OwnKeySigned: besides decoding it, the only thing a lint can do with a signature is to verify it
// against a key it can see — the certificate's own. Templates whose issuer differs from the subject and
// whose signature VERIFIES under their own public key (RSA and ECDSA P-256; as CA and as leaf; with
// authorityKeyIdentifier = subjectKeyIdentifier, different, or absent) are compared with the same
// to-be-signed bytes carrying a signature by another key, zeros, and a bit flip.
func c09OwnKeySigned(rep *core.Report) {
	ski := []byte{1, 2, 3, 4, 5, 6, 7, 8, 9, 10, 11, 12, 13, 14, 15, 16, 17, 18, 19, 20}
	other := append([]byte{0xff}, ski[1:]...)
	k1, k2 := keys.RSA(2048), keys.RSA(2047)
	ecPriv := &ecdsa.PrivateKey{D: big.NewInt(1)}
	ecPriv.Curve = elliptic.P256()
	ecPriv.X, ecPriv.Y = elliptic.P256().ScalarBaseMult([]byte{1}) // certgen.ECSPKI() is the generator: d = 1
	for _, alg := range []string{"rsa", "ecdsa"} {
		for _, ca := range []bool{true, false} {
			for kidMode := 0; kidMode < 3; kidMode++ {
				s := tlsLeafSpec(date(2023, 6, 1), date(2024, 6, 1))
				s.Issuer = certgen.Name(certgen.ATV{OID: certgen.OIDC, Tag: 19, Val: "US"}, certgen.ATV{OID: certgen.OIDO, Tag: 12, Val: "Issuer Org"}, certgen.ATV{OID: certgen.OIDCN, Tag: 12, Val: "Some Other Name"})
				if ca {
					s.Subject = certgen.Name(certgen.ATV{OID: certgen.OIDC, Tag: 19, Val: "US"}, certgen.ATV{OID: certgen.OIDO, Tag: 12, Val: "Subject Org"}, certgen.ATV{OID: certgen.OIDCN, Tag: 12, Val: "Subject CA"})
					s.Exts = []*der.Node{certgen.KeyUsage(5, 6), certgen.BasicConstraints(true, true)}
				}
				switch kidMode {
				case 0:
					s.Exts = append(s.Exts, certgen.SKI(ski), certgen.AKI(ski))
				case 1:
					s.Exts = append(s.Exts, certgen.SKI(ski), certgen.AKI(other))
				}
				if alg == "rsa" {
					s.SPKI = certgen.RSASPKI(k1.N, big.NewInt(int64(k1.E)))
				} else {
					s.SPKI = certgen.ECSPKI()
					s.SigAlg = certgen.AlgID(certgen.OIDECDSASHA256, false)
				}
				t := s.Tree()
				tbs := t.Children[0].Encode()
				var own []byte
				var alts [][]byte
				if alg == "rsa" {
					own = keys.SignSHA256RSA(k1, tbs)
					o2 := keys.SignSHA256RSA(k2, tbs)
					if len(o2) < len(own) {
						o2 = append(make([]byte, len(own)-len(o2)), o2...)
					}
					alts = append(alts, o2)
				} else {
					h := sha256.Sum256(tbs)
					sg, err := ecdsa.SignASN1(rand.Reader, ecPriv, h[:])
					if err != nil {
						rep.InternalError("ecdsa sign: %v", err)
						continue
					}
					own = sg
				}
				alts = append(alts, make([]byte, len(own)))
				flip := append([]byte(nil), own...)
				flip[len(flip)-1] ^= 1
				alts = append(alts, flip)
				mk := func(sig []byte) *zl.Obj {
					tt := t.Clone()
					tt.Children[2] = der.Bits(sig, 0)
					o, err := zl.Parse(seeds.Cert, tt.Encode())
					if err != nil {
						return nil
					}
					return o
				}
				a := mk(own)
				if a == nil {
					rep.Hole("own-key-signed template rejected by the parser")
					continue
				}
				// the template really verifies under its own key (otherwise the state is vacuous)
				if err := a.Cert.CheckSignature(a.Cert.SignatureAlgorithm, a.Cert.RawTBSCertificate, a.Cert.Signature); err != nil {
					rep.Hole("own-key-signed %s template does not verify under its own key: %v", alg, err)
				}
				for _, alt := range alts {
					b := mk(alt)
					if b == nil {
						continue
					}
					rep.Inc("states")
					rep.Inc("validated")
					rep.Inc("own_key_signed_templates")
					for _, d := range c09Compare(a, b) {
						rep.Violate(d[0], d[1]+fmt.Sprintf(" [template issuer≠subject, %s, ca=%v, key-id mode %d (0: AKI=SKI), signature valid under the certificate's own key vs. another value of the same length]", alg, ca, kidMode),
							map[string]interface{}{"op": "own_key_signed", "alg": alg, "ca": ca, "kid": kidMode})
					}
				}
			}
		}
	}
}

func replayC09(rp map[string]interface{}) (string, error) {
	if op, _ := rp["op"].(string); op == "donor" {
		return replayC09Donor(rp)
	} else if op == "fragment" {
		return replayC09Fragment(rp)
	} else if op != "" {
		return "", fmt.Errorf("op replay %s is re-run by the check itself", op)
	}
	st, err := stateFromReplay(rp)
	if err != nil {
		return "", err
	}
	if v := c09State(st, 1, true, nil); len(v) > 0 {
		return v[0][0] + ": " + v[0][1], nil
	}
	return "", nil
}
