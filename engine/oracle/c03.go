package oracle

import (
	"encoding/hex"
	"fmt"
	"sort"
	"strings"
	"time"

	"github.com/zmap/zcrypto/x509"
	"github.com/zmap/zlint/v3"
	"github.com/zmap/zlint/v3/lint"
	"github.com/zmap/zlint/v3/util"
	"golang.org/x/crypto/ocsp"

	"verif/certgen"
	"verif/core"
	"verif/der"
	"verif/seeds"
	"verif/zl"
)

func init() {
	core.Checks["C03"] = checkC03
}

// refInWindow is the property's half-open window on instants.
func refInWindow(eff, ineff, t time.Time) bool {
	return (eff.IsZero() || !t.Before(eff)) && (ineff.IsZero() || t.Before(ineff))
}

// windowInstants: d−1s, d, d+1s for every distinct effective/ineffective
// instant in the registry, plus the far ends of the calendar.
func windowInstants() []time.Time {
	set := map[int64]time.Time{}
	add := func(t time.Time) {
		if !t.IsZero() {
			for _, d := range []time.Duration{-time.Second, 0, time.Second} {
				x := t.Add(d)
				set[x.Unix()] = x.UTC()
			}
		}
	}
	for _, d := range snapshotRegistry(lint.GlobalRegistry()) {
		add(d.Meta.EffectiveDate)
		add(d.Meta.IneffectiveDate)
	}
	for _, t := range []time.Time{date(1, 1, 2), date(1950, 1, 1), time.Date(2049, 12, 31, 23, 59, 59, 0, time.UTC), date(2050, 1, 1), time.Date(9999, 12, 31, 23, 59, 59, 0, time.UTC)} {
		set[t.Unix()] = t
	}
	var out []time.Time
	for _, t := range set {
		out = append(out, t)
	}
	sort.Slice(out, func(i, j int) bool { return out[i].Before(out[j]) })
	return out
}

func setDate(o *zl.Obj, t time.Time) {
	switch o.Kind {
	case seeds.Cert:
		o.Cert.NotBefore = t
	case seeds.CRL:
		o.CRL.ThisUpdate = t
	default:
		o.OCSP.NextUpdate = t
	}
}

func inScope(src lint.LintSource, c *x509.Certificate) bool {
	switch src {
	case lint.CABFBaselineRequirements:
		return util.IsServerAuthCert(c)
	case lint.CABFSMIMEBaselineRequirements:
		return util.IsEmailProtectionCert(c)
	case lint.CABFCSBaselineRequirements:
		return util.IsCodeSigning(c.PolicyIdentifiers)
	}
	return true
}

// appliesDirect drives the lint's own applicability test on a fresh instance.
func appliesDirect(o *zl.Obj, name string) (applies bool, ok bool) {
	defer func() {
		if r := recover(); r != nil {
			applies, ok = false, false
		}
	}()
	g := lint.GlobalRegistry()
	switch o.Kind {
	case seeds.Cert:
		l := g.CertificateLints().ByName(name)
		if l == nil {
			return false, false
		}
		if !inScope(l.Source, o.Cert) {
			return false, true
		}
		in := l.Lint()
		if g.GetConfiguration().MaybeConfigure(in, name) != nil {
			return false, false
		}
		return in.CheckApplies(o.Cert), true
	case seeds.CRL:
		l := g.RevocationListLints().ByName(name)
		if l == nil {
			return false, false
		}
		in := l.Lint()
		if g.GetConfiguration().MaybeConfigure(in, name) != nil {
			return false, false
		}
		return in.CheckApplies(o.CRL), true
	default:
		l := g.OcspResponseLints().ByName(name)
		if l == nil {
			return false, false
		}
		in := l.Lint()
		if g.GetConfiguration().MaybeConfigure(in, name) != nil {
			return false, false
		}
		return in.CheckApplies(o.OCSP), true
	}
}

func c03Judge(rep *core.Report, o *zl.Obj, t time.Time, reg lint.Registry, what string, art map[string]interface{}) string {
	setDate(o, t)
	rs, p := zl.Lint(o, reg)
	if p != nil || rs == nil {
		return ""
	}
	rep.Inc("states")
	rep.Inc("transitions")
	for n, r := range rs.Results {
		if r == nil {
			continue
		}
		meta := r.LintMetadata
		in := refInWindow(meta.EffectiveDate, meta.IneffectiveDate, t)
		rep.Inc("validated")
		v := func(k, w string) {
			a := map[string]interface{}{"op": "window", "lint": n, "t": t.Format(time.RFC3339), "object": what}
			for kk, vv := range art {
				a[kk] = vv
			}
			rep.Violate("C03|"+n+"|"+k, fmt.Sprintf("%s on %s dated %s (window [%s, %s)): %s", n, what, t.Format(time.RFC3339), fmtDate(meta.EffectiveDate), fmtDate(meta.IneffectiveDate), w), a)
		}
		if !in {
			switch r.Status {
			case lint.NA:
				if ap, ok := appliesDirect(o, n); ok && ap {
					v("NA_instead_of_NE", "the object is in scope and applicable but outside the window, expected NE, got NA")
				}
				rep.Tab("outcome", "out:NA")
			case lint.NE:
				rep.Tab("outcome", "out:NE")
			default:
				v("finding_outside_window", "status "+r.Status.String()+" outside the effective window")
			}
		} else {
			if r.Status == lint.NE {
				v("NE_inside_window", "NE although the date is inside the window")
			}
			if judged(r.Status) {
				rep.Tab("outcome", "in:judged")
				rep.SetAdd("lints_judged_in_window", n)
			}
		}
	}
	return neVector(rs)
}

// neVector is the window decision of every lint: name=NE|other.
func neVector(rs *zlint.ResultSet) string {
	names := make([]string, 0, len(rs.Results))
	for n := range rs.Results {
		names = append(names, n)
	}
	sort.Strings(names)
	var sb strings.Builder
	for _, n := range names {
		if r := rs.Results[n]; r != nil && r.Status == lint.NE {
			sb.WriteString(n + "=NE\n")
		} else if r != nil && r.Status == lint.NA {
			sb.WriteString(n + "=NA\n") // applicability, not the window: never compared
		} else {
			sb.WriteString(n + "=judged\n")
		}
	}
	return sb.String()
}

// diffVectors lists (lint, a, b) for lines that differ between two result vectors.
func diffVectors(a, b string) [][3]string {
	pa, pb := map[string]string{}, map[string]string{}
	for _, l := range strings.Split(a, "\n") {
		if i := strings.IndexByte(l, '='); i > 0 {
			pa[l[:i]] = l[i+1:]
		}
	}
	for _, l := range strings.Split(b, "\n") {
		if i := strings.IndexByte(l, '='); i > 0 {
			pb[l[:i]] = l[i+1:]
		}
	}
	var out [][3]string
	for k, v := range pa {
		w, ok := pb[k]
		if ok && w != v && v != "NA" && w != "NA" {
			out = append(out, [3]string{k, v, w})
		}
	}
	sort.Slice(out, func(i, j int) bool { return out[i][0] < out[j][0] })
	return out
}

func fmtDate(t time.Time) string {
	if t.IsZero() {
		return "-∞/∞"
	}
	return t.UTC().Format(time.RFC3339)
}

func checkC03(ctx *core.Ctx, rep *core.Report) {
	instants := windowInstants()
	rep.Add("g_instants", int64(len(instants)))
	all := seeds.Load()
	nth := 8
	if !ctx.Quick() {
		nth = 1
	}
	sel := pickSeeds(all, argInt(ctx, "nth", nth))
	rep.Add("seeds_used", int64(len(sel)))
	g := lint.GlobalRegistry()
	zones := []*time.Location{time.FixedZone("+14", 14*3600), time.FixedZone("-12", -12*3600)}
	if ny, err := time.LoadLocation("America/New_York"); err == nil {
		zones = append(zones, ny)
	}
	for i := range sel {
		if !ctx.Mine(uint64(i)) {
			continue
		}
		if ctx.Expired() {
			rep.Cap("deadline at seed %d", i)
			break
		}
		sd := &sel[i]
		o, err := zl.Parse(sd.Kind, sd.DER)
		if err != nil {
			continue
		}
		for ti, t := range instants {
			vec := c03Judge(rep, o, t, g, "seed "+sd.Name, map[string]interface{}{"seed": sd.Name})
			// the same instant in another zone: identical results
			z := zones[ti%len(zones)]
			setDate(o, t.In(z))
			rs, p := zl.Lint(o, g)
			rep.Inc("transitions")
			if p == nil && rs != nil {
				rep.Inc("validated")
				if v2 := neVector(rs); v2 != vec && vec != "" {
					for _, dl := range diffVectors(vec, v2) {
						rep.Violate("C03|"+dl[0]+"|zone_dependent", fmt.Sprintf("%s on seed %s dated %s: window decision differs when the same instant is expressed in zone %s: %s vs %s", dl[0], sd.Name, t.Format(time.RFC3339), z, dl[1], dl[2]), map[string]interface{}{"op": "zone", "seed": sd.Name, "t": t.Format(time.RFC3339), "zone": z.String(), "lint": dl[0]})
					}
				}
			}
		}
		rep.Sample(2, map[string]interface{}{"seed": sd.Name, "instants": len(instants)})
	}
	c03MetaHistories(ctx, rep, sel)
	if ctx.Shard == 0 {
		c03DER(ctx, rep, instants)
		c03Mocks(ctx, rep, sel)
	}
}

// c03DER: the date travels through the encoding: UTCTime Z / +hhmm / -hhmm and
// GeneralizedTime, on an own TLS-leaf template, through the real parser.
func c03DER(ctx *core.Ctx, rep *core.Report, instants []time.Time) {
	g := lint.GlobalRegistry()
	for _, t := range instants {
		type enc struct {
			name string
			node *der.Node
		}
		var encs []enc
		if t.Year() >= 1950 && t.Year() < 2050 {
			encs = append(encs, enc{"UTCTime Z", der.Str(23, t.UTC().Format("060102150405Z"))})
			p := t.In(time.FixedZone("", 14*3600))
			if p.Year() >= 1950 && p.Year() < 2050 {
				encs = append(encs, enc{"UTCTime +1400", der.Str(23, p.Format("060102150405")+"+1400")})
			}
			m := t.In(time.FixedZone("", -12*3600))
			if m.Year() >= 1950 && m.Year() < 2050 {
				encs = append(encs, enc{"UTCTime -1200", der.Str(23, m.Format("060102150405")+"-1200")})
			}
		}
		if t.Year() >= 1000 {
			encs = append(encs, enc{"GeneralizedTime Z", der.Str(24, t.UTC().Format("20060102150405Z"))})
			h := t.In(time.FixedZone("", 5*3600+30*60))
			if h.Year() >= 1000 && h.Year() <= 9999 {
				encs = append(encs, enc{"GeneralizedTime +0530", der.Str(24, h.Format("20060102150405")+"+0530")})
			}
		}
		var ref string
		for _, e := range encs {
			s := tlsLeafSpec(t, t.AddDate(0, 3, 0))
			s.NotBeforeN = e.node
			if t.Year() > 9990 {
				s.NotAfterN = der.Str(24, "99991231235959Z")
			}
			b := s.Build()
			o, err := zl.Parse(seeds.Cert, b)
			if err != nil {
				rep.Inc("parser_rejected")
				continue
			}
			if !o.Cert.NotBefore.Equal(t) {
				rep.Inc("parser_read_other_instant")
				continue
			}
			vec := c03Judge(rep, o, o.Cert.NotBefore, g, "TLS-leaf template, notBefore as "+e.name, map[string]interface{}{"kind": "cert", "der_hex": hex.EncodeToString(b)})
			rep.Inc("der_dated_certs")
			if ref == "" {
				ref = vec
			} else if vec != ref {
				for _, dl := range diffVectors(ref, vec) {
					rep.Violate("C03|"+dl[0]+"|zone_dependent", fmt.Sprintf("%s on the TLS-leaf template dated %s: window decision differs between encodings of the same instant (%s): %s vs %s", dl[0], t.Format(time.RFC3339), e.name, dl[1], dl[2]), map[string]interface{}{"kind": "cert", "der_hex": hex.EncodeToString(b), "op": "zone_der"})
				}
			}
		}
	}
}

// ---- mock lints of all kinds with all four zero/non-zero window shapes ------

type winCert struct{}

func (winCert) CheckApplies(*x509.Certificate) bool { return true }
func (winCert) Execute(*x509.Certificate) *lint.LintResult {
	return &lint.LintResult{Status: lint.Error, Details: "ran"}
}

type winCRL struct{}

func (winCRL) CheckApplies(*x509.RevocationList) bool { return true }
func (winCRL) Execute(*x509.RevocationList) *lint.LintResult {
	return &lint.LintResult{Status: lint.Error, Details: "ran"}
}

type winOCSP struct{}

func (winOCSP) CheckApplies(*ocsp.Response) bool { return true }
func (winOCSP) Execute(*ocsp.Response) *lint.LintResult {
	return &lint.LintResult{Status: lint.Error, Details: "ran"}
}

func c03Mocks(ctx *core.Ctx, rep *core.Report, sel []seeds.Seed) {
	eff := time.Date(2020, 3, 1, 12, 0, 0, 0, time.UTC)
	ineff := time.Date(2022, 9, 1, 0, 0, 0, 0, time.FixedZone("+02", 7200)) // a non-UTC ineffective date
	shapes := map[string][2]time.Time{"zero_zero": {}, "eff_zero": {eff, time.Time{}}, "zero_ineff": {time.Time{}, ineff}, "eff_ineff": {eff, ineff}}
	var names []string
	for sh, w := range shapes {
		m := func(k string) lint.LintMetadata {
			n := "e_zz_verifwin_" + k + "_" + sh
			names = append(names, n)
			return lint.LintMetadata{Name: n, Description: "mock", Source: lint.Community, EffectiveDate: w[0], IneffectiveDate: w[1]}
		}
		lint.RegisterCertificateLint(&lint.CertificateLint{LintMetadata: m("cert"), Lint: func() lint.CertificateLintInterface { return winCert{} }})
		lint.RegisterRevocationListLint(&lint.RevocationListLint{LintMetadata: m("crl"), Lint: func() lint.RevocationListLintInterface { return winCRL{} }})
		lint.RegisterOcspResponseLint(&lint.OcspResponseLint{LintMetadata: m("ocsp"), Lint: func() lint.OcspResponseLintInterface { return winOCSP{} }})
	}
	reg, err := lint.GlobalRegistry().Filter(lint.FilterOptions{IncludeNames: names})
	if err != nil {
		rep.InternalError("mock filter: %v", err)
		return
	}
	var inst []time.Time
	for _, b := range []time.Time{eff, ineff} {
		for _, d := range []time.Duration{-time.Second, 0, time.Second, -time.Nanosecond, time.Nanosecond} {
			x := b.Add(d)
			inst = append(inst, x, x.In(time.FixedZone("+14", 14*3600)), x.In(time.FixedZone("-12", -12*3600)))
		}
	}
	inst = append(inst, date(1, 1, 2), date(2021, 1, 1), date(9999, 1, 1), time.Time{})
	done := map[seeds.Kind]bool{}
	for i := range sel {
		sd := &sel[i]
		if done[sd.Kind] {
			continue
		}
		o, err := zl.Parse(sd.Kind, sd.DER)
		if err != nil {
			continue
		}
		done[sd.Kind] = true
		for _, t := range inst {
			setDate(o, t)
			rs, p := zl.Lint(o, reg)
			if p != nil || rs == nil {
				rep.Violate("C03|mock|panic", fmt.Sprint(p), map[string]interface{}{"op": "mock_window"})
				continue
			}
			rep.Inc("states")
			rep.Inc("mock_runs")
			for n, r := range rs.Results {
				in := refInWindow(r.LintMetadata.EffectiveDate, r.LintMetadata.IneffectiveDate, t)
				rep.Inc("validated")
				want := lint.NE
				if in {
					want = lint.Error
				}
				if r.Status != want {
					rep.Violate("C03|mock|"+sd.Kind.String()+"|window", fmt.Sprintf("always-applicable %s mock %s dated %s: got %s, the window says %s", sd.Kind, n, t.Format(time.RFC3339Nano), r.Status, want),
						map[string]interface{}{"op": "mock_window", "lint": n, "t": t.Format(time.RFC3339Nano)})
				}
			}
		}
	}
	for _, k := range []seeds.Kind{seeds.Cert, seeds.CRL, seeds.OCSP} {
		if !done[k] {
			rep.Hole("no %s seed for the window mocks", k)
		}
	}
	_ = certgen.OIDCN
}
