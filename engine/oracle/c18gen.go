package oracle

// C18, "all future regenerations of the table": the table generator (v3/cmd/zlint-gtld-update) is driven as a closed
// system. The driver builds the real generator with one added file (build tag verif, go build -overlay; nothing in /repo
// changes) that replaces the transport of its HTTP client by one that answers from two local files — the environment
// answers "what ICANN publishes" become an alphabet the explorer enumerates:
//
//	gTLD JSON entry:  delegation date shape × removal date shape (canonical, empty, padded left / right, RFC 3339
//	                  timestamp, single-digit month, day-first, impossible day, garbage, …)
//	TLD list:         a second TLD in upper case (as IANA publishes it), with / without the JSON's TLD repeated
//
// one generator process per input (every pair of shapes). Oracle: the generator either refuses (non-zero exit, nothing
// usable written) or writes a table in which EVERY entry satisfies the table clause of the property as far as the
// generator can be held to it — key = the entry's own name, lower case for names taken from the TLD list, delegation date
// parseable, removal date empty or parseable — judged on the emitted Go source with the same go/ast reader that reads
// the committed table.
//
// Not demanded of the generator (it is a property of the published data, and is checked on every regenerated table by
// the table pass itself): removal not earlier than delegation, lower-case names inside the JSON.

import (
	"bytes"
	"encoding/json"
	"fmt"
	"go/parser"
	"go/token"
	"os"
	"os/exec"
	"path/filepath"
	"strings"
	"time"

	"verif/core"
)

func c18Generator(ctx *core.Ctx, rep *core.Report) {
	gen := os.Getenv("VERIF_GTLDGEN")
	if gen == "" {
		if ctx.Shard == 0 {
			rep.Hole("table generator not built with the transport hook (refactored away?): future regenerations are covered only by the table pass on the regenerated table")
		}
		return
	}
	tmp, err := os.MkdirTemp("", "verif-c18-")
	if err != nil {
		rep.InternalError("%v", err)
		return
	}
	defer os.RemoveAll(tmp)
	type shape struct{ name, val string }
	deleg := []shape{
		{"canonical", "2015-03-05"}, {"empty (never delegated)", ""}, {"blank", " "}, {"padded-left", " 2015-03-05"}, {"padded-right", "2015-03-05 "},
		{"newline", "2015-03-05\n"}, {"rfc3339", "2015-03-05T00:00:00Z"}, {"rfc3339-offset", "2015-03-05T00:00:00+01:00"}, {"datetime", "2015-03-05 00:00:00"},
		{"single-digit", "2015-3-5"}, {"day-first", "05-03-2015"}, {"slashes", "2015/03/05"}, {"impossible-day", "2015-02-30"}, {"month-13", "2015-13-01"},
		{"two-digit-year", "15-03-05"}, {"garbage", "n/a"}, {"null-word", "null"}, {"year-0", "0000-01-01"}, {"compact", "20150305"},
	}
	removal := []shape{
		{"none", ""}, {"canonical-later", "2019-07-01"}, {"blank", " "}, {"padded-left", " 2019-07-01"}, {"padded-right", "2019-07-01 "},
		{"rfc3339", "2019-07-01T00:00:00Z"}, {"single-digit", "2019-7-1"}, {"impossible-day", "2019-02-30"}, {"garbage", "never"}, {"compact", "20190701"},
	}
	lists := []shape{
		{"other TLD only", "# Version 2024010100\nZZVERIFCC\n"},
		{"other TLD and the same TLD", "# Version 2024010100\nZZVERIFCC\nZZVERIFG\n\n"},
	}
	idx := uint64(0)
	outcomes := map[string]bool{}
	for _, d := range deleg {
		for _, r := range removal {
			for li, l := range lists {
				idx++
				if !ctx.Mine(idx) {
					continue
				}
				if ctx.Quick() && li == 1 && d.name != "canonical" && r.name != "none" {
					continue
				}
				doc, _ := json.Marshal(map[string]interface{}{"gTLDs": []map[string]interface{}{
					{"gTLD": "zzverifg", "delegationDate": d.val, "removalDate": r.val},
					{"gTLD": "zzverifother", "delegationDate": "2001-01-01", "removalDate": ""},
				}})
				jp, lp := filepath.Join(tmp, "gtlds.json"), filepath.Join(tmp, "tlds.txt")
				_ = os.WriteFile(jp, doc, 0o644)
				_ = os.WriteFile(lp, []byte(l.val), 0o644)
				cmd := exec.Command(gen)
				cmd.Env = append(os.Environ(), "VERIF_GTLD_JSON="+jp, "VERIF_TLDS="+lp)
				var stdout, stderr bytes.Buffer
				cmd.Stdout, cmd.Stderr = &stdout, &stderr
				runErr := cmd.Run()
				rep.Inc("states")
				rep.Inc("transitions")
				rep.Inc("generator_runs")
				desc := fmt.Sprintf("delegationDate %q (%s), removalDate %q (%s), TLD list: %s", d.val, d.name, r.val, r.name, l.name)
				art := map[string]interface{}{"op": "generator", "gtlds_json": string(doc), "tld_list": l.val}
				if runErr != nil {
					if _, ok := runErr.(*exec.ExitError); !ok {
						rep.InternalError("table generator did not run: %v", runErr)
						return
					}
					if stderr.Len() > 0 && !strings.Contains(stderr.String(), "error updating gTLD map") && strings.Contains(stderr.String(), "verif transport") {
						rep.InternalError("transport hook failed: %s", stderr.String())
						return
					}
					rep.Inc("generator_refused")
					rep.Inc("validated")
					outcomes["refused"] = true
					continue
				}
				rep.Inc("validated")
				af, perr := parser.ParseFile(token.NewFileSet(), "gtld_map.go", stdout.Bytes(), 0)
				if perr != nil {
					rep.Violate("C18|generator|output_not_go", "the generator succeeded but what it wrote is not Go source: "+perr.Error()+" ["+desc+"]", art)
					continue
				}
				entries := tldEntriesOf(af)
				if len(entries) == 0 {
					rep.Violate("C18|generator|empty_table", "the generator succeeded but wrote a table without entries ["+desc+"]", art)
					continue
				}
				ok := true
				bad := func(k, what string) {
					ok = false
					rep.Violate("C18|generator|"+k, "a regenerated table breaks the table clause: "+what+" ["+desc+"]", art)
				}
				seen := map[string]bool{}
				for _, e := range entries {
					seen[e.Key] = true
					if e.Key != e.GTLD {
						bad("key", fmt.Sprintf("entry keyed %q carries the name %q", e.Key, e.GTLD))
					}
					if strings.HasPrefix(strings.ToLower(e.Key), "zzverifcc") && e.Key != strings.ToLower(e.Key) {
						bad("key_case", fmt.Sprintf("a name taken from the TLD list is keyed %q, not lower case", e.Key))
					}
					if _, err := time.Parse("2006-01-02", e.Deleg); err != nil {
						bad("delegation_unparseable", fmt.Sprintf("entry %s has the delegation date %q, which does not parse", e.Key, e.Deleg))
					}
					if e.Removal != "" {
						if _, err := time.Parse("2006-01-02", e.Removal); err != nil {
							bad("removal_unparseable", fmt.Sprintf("entry %s has the removal date %q, which does not parse", e.Key, e.Removal))
						}
					}
				}
				if !seen["zzverifother"] || !seen["zzverifcc"] {
					bad("entry_lost", "a delegated gTLD / a TLD of the list is missing from the table")
				}
				if d.val == "" && seen["zzverifg"] && li == 0 {
					bad("undelegated_listed", "a gTLD that was never delegated (and is not in the TLD list) is in the table")
				}
				if ok {
					outcomes["table written"] = true
				}
				rep.Sample(1, map[string]interface{}{"generator_input": desc, "entries": len(entries)})
			}
		}
	}
	for o := range outcomes {
		rep.SetAdd("generator_outcomes", o)
	}
}
