// Package oracle holds one oracle per property plus what they share.
package oracle

import (
	"fmt"
	"regexp"
	"sort"
	"strconv"

	"github.com/zmap/zlint/v3/lint"

	"strings"

	"verif/certgen"
	"verif/core"
	"verif/der"
	"verif/seeds"
	"verif/xstate"
	"verif/zl"
)

// NamedReg is a registry obtained from the global one by a filter.
type NamedReg struct {
	Name string
	Reg  lint.Registry
	Opts lint.FilterOptions
}

func mustFilter(name string, o lint.FilterOptions) NamedReg {
	r, err := lint.GlobalRegistry().Filter(o)
	if err != nil {
		panic(fmt.Sprintf("filter %s: %v", name, err))
	}
	return NamedReg{name, r, o}
}

func sortedSources(r lint.Registry) lint.SourceList {
	s := r.Sources()
	sort.Sort(s)
	return s
}

// RegistryFamily returns the registries of DESIGN §3 C01: global, include and
// exclude of every source, the e_/w_/n_ partitions, each kind-only selection,
// and the empty selection.
func RegistryFamily() []NamedReg {
	g := lint.GlobalRegistry()
	out := []NamedReg{{"global", g, lint.FilterOptions{}}}
	for _, s := range sortedSources(g) {
		out = append(out, mustFilter("include:"+string(s), lint.FilterOptions{IncludeSources: lint.SourceList{s}}))
		out = append(out, mustFilter("exclude:"+string(s), lint.FilterOptions{ExcludeSources: lint.SourceList{s}}))
	}
	for _, p := range []string{"^e_", "^w_", "^n_", "$^"} {
		out = append(out, mustFilter("name:"+p, lint.FilterOptions{NameFilter: regexp.MustCompile(p)}))
	}
	var cn, rn, on []string
	for _, l := range g.CertificateLints().Lints() {
		cn = append(cn, l.Name)
	}
	for _, l := range g.RevocationListLints().Lints() {
		rn = append(rn, l.Name)
	}
	for _, l := range g.OcspResponseLints().Lints() {
		on = append(on, l.Name)
	}
	out = append(out, mustFilter("kind:cert", lint.FilterOptions{IncludeNames: cn}))
	out = append(out, mustFilter("kind:crl", lint.FilterOptions{IncludeNames: rn}))
	out = append(out, mustFilter("kind:ocsp", lint.FilterOptions{IncludeNames: on}))
	return out
}

// pickSeeds selects the seeds of a bounded run: all CRL and OCSP seeds (they
// are few and are the only objects of their kind), a *cover* of the
// certificate corpus — greedily, in name order, every seed on which some lint
// reaches a (lint, status) pair no earlier seed reached, so that every lint
// that the corpus can judge / make report is judged / reports in every run —
// and, for diversity, every nth of the remaining seeds. nth ≤ 1 selects all.
// The selection is a deterministic function of the tree under test.
func pickSeeds(all []seeds.Seed, nth int) []seeds.Seed {
	if nth <= 1 {
		return all
	}
	cover := coverSeeds(all)
	var out []seeds.Seed
	ci := 0
	for i, s := range all {
		if s.Kind != seeds.Cert || cover[i] {
			out = append(out, s)
			continue
		}
		if ci%nth == 0 {
			out = append(out, s)
		}
		ci++
	}
	return out
}

// pickSeedsPlain: every nth certificate seed plus all CRL / OCSP seeds, without the cover (checks whose
// oracle costs hundreds of lint runs per state).
func pickSeedsPlain(all []seeds.Seed, nth int) []seeds.Seed {
	if nth <= 1 {
		return all
	}
	var out []seeds.Seed
	ci := 0
	for _, s := range all {
		if s.Kind != seeds.Cert {
			out = append(out, s)
			continue
		}
		if ci%nth == 0 {
			out = append(out, s)
		}
		ci++
	}
	return out
}

// coverSeeds marks the seeds of the greedy (lint, status) cover.
func coverSeeds(all []seeds.Seed) map[int]bool {
	g := lint.GlobalRegistry()
	seen := map[string]bool{}
	cover := map[int]bool{}
	for i := range all {
		if all[i].Kind != seeds.Cert {
			continue
		}
		o, err := zl.Parse(all[i].Kind, all[i].DER)
		if err != nil {
			continue
		}
		rs, _ := zl.Lint(o, g)
		if rs == nil {
			cover[i] = true // linting it panics: keep it in every run
			continue
		}
		for name, r := range rs.Results {
			if r == nil || r.Status == lint.NA || r.Status == lint.NE {
				continue
			}
			k := name + "|" + r.Status.String()
			if !seen[k] {
				seen[k] = true
				cover[i] = true
			}
		}
	}
	return cover
}

func argInt(ctx *core.Ctx, k string, def int) int {
	if v, ok := ctx.Args[k]; ok {
		if n, err := strconv.Atoi(v); err == nil {
			return n
		}
	}
	return def
}

// ConfigurableLints discovers, at run time, the lints whose instance
// implements lint.Configurable.
func ConfigurableLints() []string {
	g := lint.GlobalRegistry()
	var out []string
	for _, l := range g.CertificateLints().Lints() {
		if _, ok := l.Lint().(lint.Configurable); ok {
			out = append(out, l.Name)
		}
	}
	for _, l := range g.RevocationListLints().Lints() {
		if _, ok := l.Lint().(lint.Configurable); ok {
			out = append(out, l.Name)
		}
	}
	for _, l := range g.OcspResponseLints().Lints() {
		if _, ok := l.Lint().(lint.Configurable); ok {
			out = append(out, l.Name)
		}
	}
	sort.Strings(out)
	return out
}

// c10Diverse picks n certificates greedily by the number of new (lint, status) pairs they reach under reg.
func c10Diverse(reg lint.Registry, certs []*seeds.Seed, n int) []*seeds.Seed {
	type vec map[string]bool
	vs := make([]vec, len(certs))
	for i, sd := range certs {
		vs[i] = vec{}
		o, err := zl.Parse(sd.Kind, sd.DER)
		if err != nil {
			continue
		}
		rs, p := zl.Lint(o, reg)
		if p != nil || rs == nil {
			continue
		}
		for name, r := range rs.Results {
			if r != nil {
				vs[i][name+"|"+r.Status.String()] = true
			}
		}
	}
	seen := vec{}
	var out []*seeds.Seed
	used := map[int]bool{}
	for len(out) < n {
		best, bestNew := -1, -1
		for i := range certs {
			if used[i] {
				continue
			}
			k := 0
			for p := range vs[i] {
				if !seen[p] {
					k++
				}
			}
			if k > bestNew {
				best, bestNew = i, k
			}
		}
		if best < 0 {
			break
		}
		used[best] = true
		for p := range vs[best] {
			seen[p] = true
		}
		out = append(out, certs[best])
	}
	for len(out) < n {
		out = append(out, certs[len(out)%len(certs)])
	}
	return out
}


// wideSerials returns the object with every "entry serial" — an INTEGER that is the first element of a SEQUENCE inside a
// SEQUENCE OF such SEQUENCEs (CRL revoked entries, OCSP single responses' certIDs do not match and stay) — replaced by a
// distinct value wider than 64 bits. nil if nothing matched or the result no longer parses.
func wideSerials(kind seeds.Kind, enc []byte) []byte {
	root, err := der.Parse(enc)
	if err != nil {
		return nil
	}
	n := 0
	var visit func(x *der.Node)
	visit = func(x *der.Node) {
		if x.Constructed && x.Class == 0 && x.Tag == 16 && len(x.Children) >= 1 {
			all := true
			for _, c := range x.Children {
				if !(c.Constructed && c.Class == 0 && c.Tag == 16 && len(c.Children) >= 2 && !c.Children[0].Constructed && c.Children[0].Class == 0 && c.Children[0].Tag == 2) {
					all = false
				}
			}
			if all {
				for _, c := range x.Children {
					n++
					c.Children[0].Content = []byte{0x01, 0, 0, 0, 0, 0, 0, byte(n >> 8), byte(n), 0x5a}
				}
			}
		}
		for _, c := range x.Children {
			visit(c)
		}
	}
	visit(root)
	if n == 0 {
		return nil
	}
	out := root.Encode()
	if _, err := zl.Parse(kind, out); err != nil {
		return nil
	}
	return out
}

// crlEntryStates: a product space of revocation lists — the first corpus CRL that carries revoked entries is the template, and
// its entry list is replaced by every list of ≤ maxLen entries over the entry alphabet serial {0x30, 0x50, wider than 64
// bits} × reasonCode {absent, 0 unspecified, 1, 7 (unassigned), 8 removeFromCRL, −1} in every order (lists with repetition:
// duplicate serials included). Each state is handed to visit with a description; states the parser rejects are skipped.
func crlEntryStates(ctx *core.Ctx, all []seeds.Seed, maxLen int, visit func(st *xstate.State)) (n int) {
	var tmpl *seeds.Seed
	var root *der.Node
	var list *der.Node
	for i := range all {
		if all[i].Kind != seeds.CRL {
			continue
		}
		r, err := der.Parse(all[i].DER)
		if err != nil || len(r.Children) == 0 {
			continue
		}
		tbs := r.Children[0]
		for ci, c := range tbs.Children {
			// the revoked list: a universal SEQUENCE that follows a time field and whose children are SEQUENCEs starting with an INTEGER
			if ci > 0 && c.Class == 0 && c.Tag == 16 && c.Constructed && len(c.Children) > 0 && (tbs.Children[ci-1].Tag == 23 || tbs.Children[ci-1].Tag == 24) {
				e := c.Children[0]
				if e.Constructed && len(e.Children) >= 2 && e.Children[0].Class == 0 && e.Children[0].Tag == 2 {
					tmpl, root, list = &all[i], r, c
				}
			}
		}
		if tmpl != nil {
			break
		}
	}
	if tmpl == nil {
		return 0
	}
	type atom struct {
		desc string
		node func() *der.Node
	}
	serials := []struct {
		d string
		b []byte
	}{{"30", []byte{0x30}}, {"50", []byte{0x50}}, {"wide", []byte{0x01, 0, 0, 0, 0, 0, 0, 0, 0x07}}}
	reasons := []struct {
		d string
		b []byte
	}{{"-", nil}, {"r0", []byte{0}}, {"r1", []byte{1}}, {"r7", []byte{7}}, {"r8", []byte{8}}, {"r-1", []byte{0xff}}}
	var atoms []atom
	for _, sr := range serials {
		for _, rs := range reasons {
			sr, rs := sr, rs
			atoms = append(atoms, atom{sr.d + "/" + rs.d, func() *der.Node {
				e := der.Seq(der.Prim(0, 2, sr.b), der.Str(23, "240102030405Z"))
				if rs.b != nil {
					e.Children = append(e.Children, der.Seq(certgen.Ext([]int{2, 5, 29, 21}, false, der.Prim(0, 10, rs.b))))
				}
				return e
			}})
		}
	}
	idx := uint64(0)
	var rec func(cur []int)
	emit := func(cur []int) {
		idx++
		if !ctx.Mine(idx) {
			return
		}
		var kids []*der.Node
		var ds []string
		for _, a := range cur {
			kids = append(kids, atoms[a].node())
			ds = append(ds, atoms[a].desc)
		}
		saved := list.Children
		list.Children = kids
		enc := root.Encode()
		list.Children = saved
		o, err := zl.Parse(seeds.CRL, enc)
		if err != nil {
			return
		}
		n++
		visit(&xstate.State{Seed: tmpl, Path: []string{"entries=[" + strings.Join(ds, " ") + "]"}, DER: enc, Hash: core.Hash64(enc), Obj: o})
	}
	rec = func(cur []int) {
		if len(cur) > 0 {
			emit(cur)
		}
		if len(cur) == maxLen {
			return
		}
		for a := range atoms {
			rec(append(append([]int{}, cur...), a))
		}
	}
	rec(nil)
	return n
}
