package oracle

// C15, environment answers of the input side: (a) the last / first content bytes of the object range over all 256
// values (a reader that post-processes the raw input — trimming, newline normalisation, text-mode tricks — shows on
// exactly the byte values it special-cases); (b) standard input arrives in pieces: every split position of the
// input into two writes (and a family of three-piece splits), the second piece being written only after the reader
// has consumed the first ("short read" as an enumerated environment answer rather than a hidden coin).

import (
	"bytes"
	"encoding/base64"
	"encoding/hex"
	"encoding/json"
	"encoding/pem"
	"fmt"
	"os"
	"os/exec"
	"path/filepath"
	"syscall"
	"time"
	"unsafe"

	"github.com/zmap/zlint/v3/lint"

	"verif/core"
	"verif/seeds"
	"verif/zl"
)

// pendingBytes returns the number of bytes written into the pipe that the reader has not consumed yet.
func pendingBytes(f *os.File) int {
	var n int32
	const FIONREAD = 0x541B
	if _, _, e := syscall.Syscall(syscall.SYS_IOCTL, f.Fd(), FIONREAD, uintptr(unsafe.Pointer(&n))); e != 0 {
		return -1
	}
	return int(n)
}

// execPieces runs the CLI with standard input delivered as the given pieces; piece i+1 is written only when the
// child has consumed piece i (or has exited). delivered=false means the hand-over could not be observed (ioctl
// unsupported): the caller then counts the run as not validated instead of judging it.
func (c cliRun) execPieces(pieces [][]byte) (stdout []byte, code int, delivered bool, err error) {
	bin := os.Getenv("VERIF_ZLINT")
	cmd := exec.Command(bin, c.args...)
	var out, errb bytes.Buffer
	cmd.Stdout, cmd.Stderr = &out, &errb
	pr, pw, e := os.Pipe()
	if e != nil {
		return nil, 0, false, e
	}
	cmd.Stdin = pr
	if e := cmd.Start(); e != nil {
		pr.Close()
		pw.Close()
		return nil, 0, false, e
	}
	pr.Close()
	done := make(chan error, 1)
	go func() { done <- cmd.Wait() }()
	delivered = true
	var werr error
	exited := false
	for i, p := range pieces {
		if len(p) > 0 {
			if _, e := pw.Write(p); e != nil { // EPIPE: the child has gone away
				break
			}
		}
		if i == len(pieces)-1 {
			break
		}
		deadline := time.Now().Add(20 * time.Second)
		for {
			n := pendingBytes(pw)
			if n == 0 {
				break
			}
			if n < 0 {
				delivered = false
				break
			}
			select {
			case werr = <-done:
				exited = true
			default:
			}
			if exited || time.Now().After(deadline) {
				if !exited {
					delivered = false
				}
				break
			}
			time.Sleep(100 * time.Microsecond)
		}
		if exited {
			break
		}
	}
	pw.Close()
	if !exited {
		werr = <-done
	}
	if werr != nil {
		if ee, ok := werr.(*exec.ExitError); ok {
			return out.Bytes(), ee.ExitCode(), delivered, nil
		}
		return nil, 0, delivered, werr
	}
	return out.Bytes(), 0, delivered, nil
}

func c15Encode(kind seeds.Kind, derBytes []byte, enc string) []byte {
	switch enc {
	case "pem":
		t := "CERTIFICATE"
		if kind == seeds.CRL {
			t = "X509 CRL"
		}
		return pem.EncodeToMemory(&pem.Block{Type: t, Bytes: derBytes})
	case "base64":
		return []byte(base64.StdEncoding.EncodeToString(derBytes) + "\n")
	}
	return derBytes
}

// c15Judge: exit 0 and exactly one object equal to the library's results.
func c15Judge(rep *core.Report, key, what string, r cliRun, out []byte, code int, o *zl.Obj, extra map[string]interface{}) {
	art := map[string]interface{}{"op": "cli", "args": r.args, "stdin_hex": hex.EncodeToString(r.stdin)}
	for k, x := range extra {
		art[k] = x
	}
	want, err := c15Expect(o, lint.FilterOptions{}, "")
	if err != nil {
		rep.InternalError("library twin: %v", err)
		return
	}
	rep.Inc("validated")
	if code != 0 {
		rep.Violate("C15|"+key+"|exit_nonzero_on_good_input", fmt.Sprintf("exit %d for a parseable object: %s", code, what), art)
		return
	}
	dec := json.NewDecoder(bytes.NewReader(out))
	var got map[string]*lint.LintResult
	if err := dec.Decode(&got); err != nil {
		rep.Violate("C15|"+key+"|stdout_not_json", "stdout does not decode ("+err.Error()+"): "+what, art)
		return
	}
	if d := compareResults(want, got); d != "" {
		rep.Violate("C15|"+key+"|results_differ", d+": "+what, art)
	}
}

func c15InputAnswers(ctx *core.Ctx, rep *core.Report, tmp string, objs []seeds.Seed) {
	idx := uint64(1 << 40)
	// ---- (a) boundary bytes: the signature's last byte (= last byte of the DER) and the last two bytes ---------
	type bytePair struct{ a, b int }
	var tails []bytePair
	for b := 0; b < 256; b++ {
		tails = append(tails, bytePair{-1, b})
	}
	for _, a := range []int{0x09, 0x0a, 0x0d, 0x20, 0x00, 0x1a} {
		for _, b := range []int{0x09, 0x0a, 0x0d, 0x20, 0x00, 0x1a, 0x0b, 0x0c, 0x85, 0xa0} {
			tails = append(tails, bytePair{a, b})
		}
	}
	for _, tl := range tails {
		sig := make([]byte, 256)
		for i := range sig {
			sig[i] = byte(i*7 + 1)
		}
		if tl.a >= 0 {
			sig[254] = byte(tl.a)
		}
		sig[255] = byte(tl.b)
		sp := tlsLeafSpec(date(2024, 3, 1), date(2024, 9, 1))
		sp.Signature = sig
		b := sp.Build()
		o, err := zl.Parse(seeds.Cert, b)
		if err != nil {
			rep.Inc("parser_rejected")
			continue
		}
		for _, enc := range []string{"der", "pem", "base64"} {
			if enc != "der" && tl.a < 0 && tl.b%16 != 0x0a%16 {
				continue // the text encodings carry the byte inside base64: a 16-value subset suffices there
			}
			data := c15Encode(seeds.Cert, b, enc)
			for _, mode := range []string{"format", "suffix", "stdin"} {
				if enc == "base64" && mode == "suffix" {
					continue
				}
				idx++
				if !ctx.Mine(idx) {
					continue
				}
				var r cliRun
				name := fmt.Sprintf("tail_%02x_%02x", tl.a&0xff, tl.b)
				switch mode {
				case "format":
					p := filepath.Join(tmp, name+"_"+enc+".bin")
					_ = os.WriteFile(p, data, 0o644)
					r.args = []string{"-format", enc, p}
				case "suffix":
					p := filepath.Join(tmp, name+"."+enc)
					_ = os.WriteFile(p, data, 0o644)
					r.args = []string{p}
				case "stdin":
					r.args = []string{"-format", enc}
					r.stdin = data
				}
				out, code, err := r.exec()
				rep.Inc("states")
				rep.Inc("transitions")
				rep.Inc("cli_runs")
				rep.Inc("boundary_byte_runs")
				if err != nil {
					rep.InternalError("exec: %v", err)
					continue
				}
				c15Judge(rep, "boundary_byte", fmt.Sprintf("template whose DER ends in % x, given as %s/%s", b[len(b)-2:], enc, mode), r, out, code, o, map[string]interface{}{"der_hex": hex.EncodeToString(b)})
			}
		}
	}
	// ---- (b) standard input in pieces -----------------------------------------------------------------------
	var targets []seeds.Seed
	targets = append(targets, seeds.Seed{Name: "template_tls_leaf", Kind: seeds.Cert, DER: tlsLeafSpec(date(2024, 3, 1), date(2024, 9, 1)).Build()})
	nExtra := 1
	if !ctx.Quick() {
		nExtra = 6
	}
	var biggest *seeds.Seed
	for i := range objs {
		s := &objs[i]
		if biggest == nil || len(s.DER) > len(biggest.DER) {
			biggest = s
		}
	}
	for i := range objs {
		if nExtra == 0 {
			break
		}
		if objs[i].Kind == seeds.Cert && i%7 == 3 {
			targets = append(targets, objs[i])
			nExtra--
		}
	}
	if biggest != nil {
		targets = append(targets, *biggest)
	}
	for ti := range targets {
		s := &targets[ti]
		o, err := zl.Parse(s.Kind, s.DER)
		if err != nil {
			continue
		}
		encs := []string{"der", "pem", "base64"}
		if s.Kind == seeds.CRL {
			encs = []string{"pem"}
		}
		for _, enc := range encs {
			data := c15Encode(s.Kind, s.DER, enc)
			stride := 1
			if ti > 0 {
				stride = 1 + len(data)/160 // other objects: ≈160 evenly spaced split positions
				if !ctx.Quick() {
					stride = 1 + len(data)/1200
				}
			}
			var splits [][]int
			for k := 1; k < len(data); k += stride {
				splits = append(splits, []int{k})
			}
			splits = append(splits, []int{len(data) - 1})
			// three pieces: a family around the quarter points and the ends
			for _, a := range []int{1, 2, len(data) / 4, len(data) / 2} {
				for _, b := range []int{len(data)/2 + 1, len(data) - 2, len(data) - 1} {
					if a > 0 && a < b && b < len(data) {
						splits = append(splits, []int{a, b})
					}
				}
			}
			for _, dash := range []bool{false, true} {
				for _, sp := range splits {
					if dash && (len(sp) > 1 || sp[0]%8 != 1) {
						continue // the "-" spelling of standard input: every 8th two-piece split
					}
					idx++
					if !ctx.Mine(idx) {
						continue
					}
					var pieces [][]byte
					prev := 0
					for _, k := range sp {
						pieces = append(pieces, data[prev:k])
						prev = k
					}
					pieces = append(pieces, data[prev:])
					r := cliRun{args: []string{"-format", enc}, stdin: data}
					if dash {
						r.args = append(r.args, "-")
					}
					out, code, delivered, err := r.execPieces(pieces)
					rep.Inc("states")
					rep.Inc("transitions")
					rep.Inc("cli_runs")
					if err != nil {
						rep.InternalError("exec: %v", err)
						continue
					}
					if !delivered {
						rep.Inc("piecewise_handover_unobserved")
						continue
					}
					rep.Inc("piecewise_stdin_runs")
					c15Judge(rep, "stdin_pieces", fmt.Sprintf("%s %s as %s on standard input, delivered in %d pieces split at %v of %d bytes", s.Kind, s.Name, enc, len(pieces), sp, len(data)), r, out, code, o,
						map[string]interface{}{"splits": sp, "op": "cli_pieces"})
					rep.Sample(2, map[string]interface{}{"object": s.Name, "encoding": enc, "stdin_split_at": sp})
				}
			}
		}
	}
}
