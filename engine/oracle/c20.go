package oracle

import (
	"bytes"
	"encoding/hex"
	"fmt"
	"strings"
	"time"

	"github.com/zmap/zlint/v3/lint"

	"verif/certgen"
	"verif/core"
	"verif/der"
	"verif/seeds"
	"verif/xstate"
	"verif/zl"
)

func init() {
	core.Checks["C20"] = checkC20
	core.Replayers["C20"] = replayC20
}

type pairRel int

const (
	relSameStatus          pairRel = iota // both judged ⇒ same status
	relFindingIff                         // both judged ⇒ (finding ⇔ finding), severities differ deliberately
	relErrorImpliesFinding                // a's error ⇒ b reports a finding
)

type rulePair struct {
	a, b string
	rel  pairRel
	pre  string // same-content precondition: "san=ian" | "subject=issuer" | "cn-in-san" | "same-cert"
}

// The pair catalogue (from the property's anchors).
var c20Pairs = []rulePair{
	// RFC 5280 ↔ BR DNS-name label rules
	{"e_rfc_dnsname_empty_label", "e_dnsname_empty_label", relSameStatus, "cn-in-san"},
	{"e_rfc_dnsname_hyphen_in_sld", "e_dnsname_hyphen_in_sld", relSameStatus, "cn-in-san"},
	{"e_rfc_dnsname_label_too_long", "e_dnsname_label_too_long", relSameStatus, "cn-in-san"},
	{"e_rfc_dnsname_underscore_in_sld", "e_dnsname_underscore_in_sld", relSameStatus, "cn-in-san"},
	{"w_rfc_dnsname_underscore_in_trd", "w_dnsname_underscore_in_trd", relSameStatus, "cn-in-san"},
	// subjectAltName ↔ issuerAltName general-name rules
	{"e_ext_san_dns_not_ia5_string", "e_ext_ian_dns_not_ia5_string", relSameStatus, "san=ian"},
	{"e_ext_san_empty_name", "e_ext_ian_empty_name", relSameStatus, "san=ian"},
	{"e_ext_san_no_entries", "e_ext_ian_no_entries", relSameStatus, "san=ian"},
	{"e_ext_san_rfc822_format_invalid", "e_ext_ian_rfc822_format_invalid", relSameStatus, "san=ian"},
	{"e_ext_san_space_dns_name", "e_ext_ian_space_dns_name", relSameStatus, "san=ian"},
	{"e_ext_san_uri_format_invalid", "e_ext_ian_uri_format_invalid", relSameStatus, "san=ian"},
	{"e_ext_san_uri_host_not_fqdn_or_ip", "e_ext_ian_uri_host_not_fqdn_or_ip", relSameStatus, "san=ian"},
	{"e_ext_san_uri_not_ia5", "e_ext_ian_uri_not_ia5", relSameStatus, "san=ian"},
	{"e_ext_san_uri_relative", "e_ext_ian_uri_relative", relSameStatus, "san=ian"},
	{"e_san_bare_wildcard", "e_ian_bare_wildcard", relSameStatus, "san=ian"},
	{"e_san_dns_name_includes_null_char", "e_ian_dns_name_includes_null_char", relSameStatus, "san=ian"},
	{"e_san_dns_name_starts_with_period", "e_ian_dns_name_starts_with_period", relSameStatus, "san=ian"},
	{"e_san_wildcard_not_first", "e_ian_wildcard_not_first", relSameStatus, "san=ian"},
	{"n_san_iana_pub_suffix_empty", "w_ian_iana_pub_suffix_empty", relFindingIff, "san=ian"},
	// subject ↔ issuer DN rules
	{"w_subject_dn_leading_whitespace", "w_issuer_dn_leading_whitespace", relSameStatus, "subject=issuer"},
	{"w_subject_dn_trailing_whitespace", "w_issuer_dn_trailing_whitespace", relSameStatus, "subject=issuer"},
	{"n_multiple_subject_rdn", "w_multiple_issuer_rdn", relFindingIff, "subject=issuer"},
	{"e_subject_dn_country_not_printable_string", "e_issuer_dn_country_not_printable_string", relSameStatus, "subject=issuer"},
	// two sources, same certificate
	{"e_prohibit_dsa_usage", "e_br_prohibit_dsa_usage", relSameStatus, "same-cert"},
	{"w_sub_cert_aia_contains_internal_names", "w_smime_aia_contains_internal_names", relSameStatus, "same-cert"},
	// error-level limit ⇒ stricter warning-level companion
	{"e_tls_server_cert_valid_time_longer_than_398_days", "w_tls_server_cert_valid_time_longer_than_397_days", relErrorImpliesFinding, "same-cert"},
	{"e_subject_given_name_max_length", "w_subject_given_name_recommended_max_length", relErrorImpliesFinding, "same-cert"},
	{"e_subject_surname_max_length", "w_subject_surname_recommended_max_length", relErrorImpliesFinding, "same-cert"},
}

func isFinding(s lint.LintStatus) bool { return s == lint.Notice || s == lint.Warn || s == lint.Error }

// c20Eval applies every catalogue relation whose precondition holds on o.
func c20Eval(o *zl.Obj, reg lint.Registry, pre map[string]bool, rep *core.Report) [][2]string {
	rs, p := zl.Lint(o, reg)
	if p != nil || rs == nil {
		return nil
	}
	var bad [][2]string
	for _, pr := range c20Pairs {
		if !pre[pr.pre] {
			continue
		}
		ra, rb := rs.Results[pr.a], rs.Results[pr.b]
		if ra == nil || rb == nil {
			continue
		}
		key := "C20|" + pr.a + "~" + pr.b
		switch pr.rel {
		case relSameStatus:
			if !judged(ra.Status) && ra.Status != lint.Fatal || !judged(rb.Status) && rb.Status != lint.Fatal {
				continue
			}
			if rep != nil {
				rep.Inc("validated")
				rep.Tab("pair_both_ran", pr.a+"~"+pr.b)
				if isFinding(ra.Status) {
					rep.Tab("pair_finding", pr.a+"~"+pr.b)
				}
			}
			if ra.Status != rb.Status {
				bad = append(bad, [2]string{key + "|" + ra.Status.String() + "~" + rb.Status.String(), fmt.Sprintf("%s says %s but its twin %s says %s on the same content", pr.a, ra.Status, pr.b, rb.Status)})
			}
		case relFindingIff:
			if !judged(ra.Status) || !judged(rb.Status) {
				continue
			}
			if rep != nil {
				rep.Inc("validated")
				rep.Tab("pair_both_ran", pr.a+"~"+pr.b)
				if isFinding(ra.Status) {
					rep.Tab("pair_finding", pr.a+"~"+pr.b)
				}
			}
			if isFinding(ra.Status) != isFinding(rb.Status) {
				bad = append(bad, [2]string{key + "|" + ra.Status.String() + "~" + rb.Status.String(), fmt.Sprintf("%s says %s but its twin %s says %s on the same content", pr.a, ra.Status, pr.b, rb.Status)})
			}
		case relErrorImpliesFinding:
			if ra.Status != lint.Error {
				if rep != nil && judged(ra.Status) && judged(rb.Status) {
					rep.Tab("pair_both_ran", pr.a+"~"+pr.b)
				}
				continue
			}
			if rep != nil {
				rep.Inc("validated")
				rep.Tab("pair_both_ran", pr.a+"~"+pr.b)
				rep.Tab("pair_finding", pr.a+"~"+pr.b)
			}
			if !isFinding(rb.Status) {
				bad = append(bad, [2]string{key + "|error~" + rb.Status.String(), fmt.Sprintf("%s reports an error but its stricter companion %s says %s", pr.a, pr.b, rb.Status)})
			}
		}
	}
	return bad
}

func c20Registry() (lint.Registry, error) {
	var names []string
	seen := map[string]bool{}
	g := lint.GlobalRegistry()
	for _, p := range c20Pairs {
		for _, n := range []string{p.a, p.b} {
			if !seen[n] && g.CertificateLints().ByName(n) != nil {
				seen[n] = true
				names = append(names, n)
			}
		}
	}
	return g.Filter(lint.FilterOptions{IncludeNames: names})
}

// extra GeneralName atoms for the mirrored SAN/IAN space
func c20GNAtoms() []struct {
	name string
	gn   *der.Node
} {
	out := sanAtoms()
	add := func(n string, g *der.Node) {
		out = append(out, struct {
			name string
			gn   *der.Node
		}{n, g})
	}
	add("dns:empty", certgen.GNDNS(""))
	add("dns:blank", certgen.GNDNS(" "))
	add("uri:empty", certgen.GNURI(""))
	add("email:empty", certgen.GNEmail(""))
	add("email:<>", certgen.GNEmail("<a@example.com>"))
	add("email:comment", certgen.GNEmail("a@example.com (comment)"))
	add("uri:ipv6host", certgen.GNURI("https://[2001:db8::1]/x"))
	add("uri:ipv4host", certgen.GNURI("http://10.0.0.1/x"))
	add("uri:port", certgen.GNURI("https://www.example.com:8443/x"))
	add("uri:userinfo", certgen.GNURI("https://user@www.example.com/x"))
	add("uri:noscheme", certgen.GNURI("www.example.com/x"))
	add("uri:nonIA5", certgen.GNURI("https://w\xc3\xa4w.example.com/"))
	add("uri:blankhost", certgen.GNURI("http://exa mple.com/"))
	add("uri:urn", certgen.GNURI("urn:uuid:f81d4fae-7dec-11d0-a765-00a0c91e6bf6"))
	add("uri:underscorehost", certgen.GNURI("https://a_b.example.com/"))
	add("uri:ldap", certgen.GNURI("ldap://ldap.example.com/cn=x"))
	add("dns:wildcard-mid", certgen.GNDNS("www.*.example.com"))
	add("dns:upper", certgen.GNDNS("WWW.EXAMPLE.COM"))
	return out
}

func checkC20(ctx *core.Ctx, rep *core.Report) {
	reg, err := c20Registry()
	if err != nil {
		rep.InternalError("registry: %v", err)
		return
	}
	g := lint.GlobalRegistry()
	for _, p := range c20Pairs {
		for _, n := range []string{p.a, p.b} {
			if g.CertificateLints().ByName(n) == nil {
				rep.Hole("catalogue lint %s no longer exists (pair %s ~ %s not evaluated)", n, p.a, p.b)
			}
		}
	}
	idx := uint64(0)
	run := func(b []byte, pre map[string]bool, what string) {
		o, err := zl.Parse(seeds.Cert, b)
		if err != nil {
			rep.Inc("parser_rejected")
			return
		}
		rep.Inc("states")
		rep.Inc("transitions")
		alone := map[string]bool{}
		for _, v := range c20Eval(o, reg, pre, rep) {
			alone[v[0]] = true
			rep.Violate(v[0], v[1]+" ["+what+"]", map[string]interface{}{"kind": "cert", "der_hex": hex.EncodeToString(b), "pre": keysTrue(pre), "what": what})
		}
		if pre["full-run"] {
			// "whenever both run on the same content" includes the ordinary case in which both run as part of ONE full lint
			// run, with every other lint of the registry running before, between and after them on the same object
			o2, err := zl.Parse(seeds.Cert, b)
			if err != nil {
				return
			}
			rep.Inc("full_registry_runs")
			for _, v := range c20Eval(o2, lint.GlobalRegistry(), pre, nil) {
				if alone[v[0]] {
					continue // the same contradiction the twins show on their own: reported (or known) under its own key
				}
				rep.Violate(v[0]+"|in a full run", v[1]+" — in one run of the whole registry (the twins agree when they run without the other lints) ["+what+"]",
					map[string]interface{}{"kind": "cert", "der_hex": hex.EncodeToString(b), "pre": keysTrue(pre), "what": what, "registry": "global"})
			}
		}
	}
	nb, na := date(2024, 3, 1), date(2024, 9, 1)

	// (A) SAN = IAN over all GeneralName lists of size ≤ 2
	atoms := c20GNAtoms()
	lists := [][]int{{}}
	for i := range atoms {
		lists = append(lists, []int{i})
		for j := range atoms {
			lists = append(lists, []int{i, j})
		}
	}
	for _, l := range lists {
		idx++
		if !ctx.Mine(idx) {
			continue
		}
		var s1, s2 []*der.Node
		var names []string
		for _, i := range l {
			s1 = append(s1, atoms[i].gn.Clone())
			s2 = append(s2, atoms[i].gn.Clone())
			names = append(names, atoms[i].name)
		}
		s := tlsLeafSpec(nb, na)
		s.Exts[len(s.Exts)-1] = certgen.SAN(false, s1...)
		s.Exts = append(s.Exts, certgen.IAN(s2...))
		run(s.Build(), map[string]bool{"san=ian": true, "same-cert": true}, fmt.Sprintf("SAN=IAN=%v", names))
		rep.Sample(2, map[string]interface{}{"space": "san=ian", "names": names})
	}

	// (A') … and every SAN the repository's own test certificates carry, mirrored into the IAN; (B') every subject DN
	// they carry, mirrored into the issuer — the contents the twin lints were written (and tested, one side at a time) for
	{
		seenSAN, seenDN := map[string]bool{}, map[string]bool{}
		corpus := seeds.Load()
		for ci := range corpus {
			if corpus[ci].Kind != seeds.Cert {
				continue
			}
			root, err := der.Parse(corpus[ci].DER)
			if err != nil {
				continue
			}
			if sn := sanNames(root); sn != nil && len(sn.Children) > 0 && len(sn.Children) <= 12 {
				k := hex.EncodeToString(sn.Clone().Encode())
				if !seenSAN[k] {
					seenSAN[k] = true
					idx++
					if ctx.Mine(idx) {
						var s1, s2 []*der.Node
						for _, c := range sn.Children {
							s1 = append(s1, c.Clone())
							s2 = append(s2, c.Clone())
						}
						sp := tlsLeafSpec(nb, na)
						sp.Exts[len(sp.Exts)-1] = certgen.SAN(false, s1...)
						sp.Exts = append(sp.Exts, certgen.IAN(s2...))
						run(sp.Build(), map[string]bool{"san=ian": true, "same-cert": true, "full-run": true}, "SAN=IAN= the SAN of corpus file "+corpus[ci].Name)
						rep.Inc("corpus_sans_mirrored")
					}
				}
			}
			// tbsCertificate: [0] version?, serial, signature, issuer, validity, subject
			if len(root.Children) > 0 {
				tbs := root.Children[0]
				off := 0
				if len(tbs.Children) > 0 && tbs.Children[0].Class == 2 {
					off = 1
				}
				if len(tbs.Children) > off+4 {
					sub := tbs.Children[off+4]
					k := hex.EncodeToString(sub.Clone().Encode())
					if sub.Constructed && len(sub.Children) > 0 && !seenDN[k] {
						seenDN[k] = true
						idx++
						if ctx.Mine(idx) {
							sp := tlsLeafSpec(nb, na)
							sp.Subject, sp.Issuer = sub.Clone(), sub.Clone()
							// (the signature is not judged and the template is not a CA: a self-issued leaf, which the pair lints do not mind)
							run(sp.Build(), map[string]bool{"subject=issuer": true, "same-cert": true, "full-run": true}, "subject=issuer= the subject of corpus file "+corpus[ci].Name)
							rep.Inc("corpus_subjects_mirrored")
						}
					}
				}
			}
		}
	}

	// (B) issuer DN = subject DN over a DN-atom alphabet
	type dnAtom struct {
		name string
		rdn  []certgen.ATV
	}
	var dn []dnAtom
	for _, at := range []struct {
		n   string
		oid []int
	}{{"CN", certgen.OIDCN}, {"O", certgen.OIDO}, {"OU", certgen.OIDOU}, {"L", certgen.OIDL}, {"ST", certgen.OIDST}} {
		for _, v := range []struct{ n, v string }{{"plain", "Example"}, {"lead", " Example"}, {"trail", "Example "}, {"both", " Example "}, {"empty", ""}, {"blank", " "}, {"tab", "\tExample"}} {
			for _, tag := range []int{12, 19} {
				dn = append(dn, dnAtom{fmt.Sprintf("%s:%s:%d", at.n, v.n, tag), []certgen.ATV{{OID: at.oid, Tag: tag, Val: v.v}}})
			}
		}
	}
	for _, tag := range []int{19, 12, 22, 30} {
		val := "US"
		if tag == 30 {
			val = "\x00U\x00S"
		}
		dn = append(dn, dnAtom{fmt.Sprintf("C:US:%d", tag), []certgen.ATV{{OID: certgen.OIDC, Tag: tag, Val: val}}})
	}
	dn = append(dn, dnAtom{"multi:CN+O", []certgen.ATV{{OID: certgen.OIDCN, Tag: 12, Val: "a"}, {OID: certgen.OIDO, Tag: 12, Val: "b"}}})
	dn = append(dn, dnAtom{"multi:CN+OU(lead)", []certgen.ATV{{OID: certgen.OIDCN, Tag: 12, Val: "a"}, {OID: certgen.OIDOU, Tag: 12, Val: " b"}}})
	dn = append(dn, dnAtom{"multi:C+C", []certgen.ATV{{OID: certgen.OIDC, Tag: 19, Val: "US"}, {OID: certgen.OIDC, Tag: 12, Val: "DE"}}})
	var dnLists [][]int
	for i := range dn {
		dnLists = append(dnLists, []int{i})
		for j := range dn {
			dnLists = append(dnLists, []int{i, j})
		}
	}
	for _, l := range dnLists {
		idx++
		if !ctx.Mine(idx) {
			continue
		}
		var rdns [][]certgen.ATV
		var names []string
		for _, i := range l {
			rdns = append(rdns, dn[i].rdn)
			names = append(names, dn[i].name)
		}
		s := tlsLeafSpec(nb, na)
		s.Subject = certgen.NameRDNs(rdns...)
		s.Issuer = certgen.NameRDNs(rdns...)
		run(s.Build(), map[string]bool{"subject=issuer": true, "same-cert": true}, fmt.Sprintf("subject=issuer=%v", names))
	}

	// (C) RFC ↔ BR DNS rules: CN ∈ SAN or CN empty, TLS leaf after both effective dates
	l62, l63, l64, l65 := strings.Repeat("a", 62), strings.Repeat("a", 63), strings.Repeat("a", 64), strings.Repeat("a", 65)
	dnsAtoms := []string{"www.example.com", "*.example.com", "www..example.com", ".example.com", "example.com.", "www.-example.com", "www.example-.com", "www.ex-ample.com",
		"www.ex_ample.com", "www._example.com", "w_w.example.com", "_www.example.com", "a.b_c.d.example.com", l62 + ".example.com", l63 + ".example.com", l64 + ".example.com", l65 + ".example.com",
		"www." + l64 + ".com", "com", "%%%.example.com", "xn--bcher-kva.example.com", "www.example.co.uk", "*.co.uk", "www.-co.uk", "192.0.2.1"}
	for i := range dnsAtoms {
		for j := -1; j < len(dnsAtoms); j++ {
			for _, cnMode := range []string{"empty", "first", "last"} {
				idx++
				if !ctx.Mine(idx) {
					continue
				}
				sans := []string{dnsAtoms[i]}
				if j >= 0 {
					sans = append(sans, dnsAtoms[j])
				}
				cn := ""
				switch cnMode {
				case "first":
					cn = sans[0]
				case "last":
					cn = sans[len(sans)-1]
				}
				run(c18Cert(cn, sans, nb, 0), map[string]bool{"cn-in-san": true, "same-cert": true, "full-run": true}, fmt.Sprintf("CN=%q SAN=%q", cn, sans))
				// list length as an axis of its own: the same names inside a SAN of 3, 5 and 9 entries (compliant fillers
				// before or after) — slices grown by append have spare capacity at exactly these lengths, and code that
				// appends to / filters a shared slice behaves differently there
				for _, total := range []int{3, 5, 9} {
					if total <= len(sans) || (ctx.Quick() && total == 9 && (i+j)%4 != 0) {
						continue
					}
					var fill []string
					for k := 0; k < total-len(sans); k++ {
						fill = append(fill, fmt.Sprintf("f%d.example.com", k))
					}
					after := append(append([]string{}, sans...), fill...)
					before := append(append([]string{}, fill...), sans...)
					run(c18Cert(cn, after, nb, 0), map[string]bool{"cn-in-san": true, "same-cert": true, "full-run": true}, fmt.Sprintf("CN=%q SAN=%q", cn, after))
					run(c18Cert(cn, before, nb, 0), map[string]bool{"cn-in-san": true, "same-cert": true, "full-run": true}, fmt.Sprintf("CN=%q SAN=%q", cn, before))
				}
			}
		}
	}
	// … and every list of three names (CN empty / first / last)
	for i := range dnsAtoms {
		for j := i; j < len(dnsAtoms); j++ {
			for k := range dnsAtoms {
				idx++
				if !ctx.Mine(idx) {
					continue
				}
				if ctx.Quick() && (i+j+k)%3 != 0 {
					continue
				}
				sans := []string{dnsAtoms[i], dnsAtoms[k], dnsAtoms[j]}
				for _, cn := range []string{"", sans[0], sans[2]} {
					run(c18Cert(cn, sans, nb, 0), map[string]bool{"cn-in-san": true, "same-cert": true, "full-run": true}, fmt.Sprintf("CN=%q SAN=%q", cn, sans))
				}
			}
		}
	}

	if ctx.Shard == 0 {
		same := map[string]bool{"same-cert": true}
		// (D) key types
		for _, k := range []struct {
			n    string
			spki *der.Node
		}{{"rsa", certgen.DefaultRSASPKI()}, {"dsa", certgen.DSASPKI()}, {"ec", certgen.ECSPKI()}} {
			for _, d := range []time.Time{date(2015, 1, 1), date(2019, 6, 1), date(2020, 9, 30), date(2024, 3, 1)} {
				s := tlsLeafSpec(d, d.AddDate(0, 6, 0))
				s.SPKI = k.spki
				run(s.Build(), same, "key type "+k.n+" dated "+d.Format("2006-01-02"))
			}
		}
		// (E) AIA URLs on a certificate in both TLS and S/MIME scope
		urls := []string{"http://ocsp.example.com", "http://10.0.0.1/", "http://ocsp.example.invalidtldxyz/", "http://[2001:db8::1]/", "%%bad", "http:///path", "ldap://ldap.example.com/x",
			"http://ocsp.example.com:8080/", "http://localhost/", "HTTP://OCSP.EXAMPLE.COM", "http://ocsp.example.com./", "http://exa mple.com/"}
		for _, u1 := range urls {
			for _, u2 := range append([]string{""}, urls...) {
				for _, order := range []int{0, 1} {
					s := certgen.Spec{
						Subject:   certgen.Name(certgen.ATV{OID: certgen.OIDC, Tag: 19, Val: "US"}, certgen.ATV{OID: certgen.OIDCN, Tag: 12, Val: "example.com"}),
						NotBefore: nb, NotAfter: na,
						Exts: []*der.Node{certgen.KeyUsage(0, 2), certgen.EKU(certgen.EKUServerAuth, certgen.EKUEmail), certgen.BasicConstraints(false, true),
							certgen.Policies(certgen.PolDV, []int{2, 23, 140, 1, 5, 1, 1}),
							certgen.SAN(false, certgen.GNDNS("example.com"), certgen.GNEmail("a@example.com"))},
					}
					var pairs [][2]*der.Node
					m1, m2 := certgen.AIAOCSP, certgen.AIACAIssuer
					if order == 1 {
						m1, m2 = m2, m1
					}
					pairs = append(pairs, [2]*der.Node{der.OID(m1...), certgen.GNURI(u1)})
					if u2 != "" {
						pairs = append(pairs, [2]*der.Node{der.OID(m2...), certgen.GNURI(u2)})
					}
					s.Exts = append(s.Exts, certgen.AIA(pairs...))
					run(s.Build(), same, fmt.Sprintf("AIA %q %q order %d", u1, u2, order))
				}
			}
		}
		// (E') … and AIA hosts under a TLD that was still delegated when the certificate was issued and has been removed
		// since (read from the table): "internal name" must mean the same thing to both copies whatever instant they consult
		if entries, err := readTLDTable(); err == nil {
			n := 0
			for _, e := range entries {
				rm, err := time.Parse("2006-01-02", e.Removal)
				if e.Removal == "" || err != nil || rm.Before(date(2023, 10, 15)) || rm.After(time.Now().AddDate(0, 0, -2)) {
					continue
				}
				issued := rm.AddDate(0, 0, -20)
				for _, u := range []string{"http://ocsp.example." + e.Key + "/", "http://OCSP.Example." + strings.ToUpper(e.Key)} {
					s := certgen.Spec{
						Subject:   certgen.Name(certgen.ATV{OID: certgen.OIDC, Tag: 19, Val: "US"}, certgen.ATV{OID: certgen.OIDCN, Tag: 12, Val: "example.com"}),
						NotBefore: issued, NotAfter: issued.AddDate(0, 6, 0),
						Exts: []*der.Node{certgen.KeyUsage(0, 2), certgen.EKU(certgen.EKUServerAuth, certgen.EKUEmail), certgen.BasicConstraints(false, true),
							certgen.Policies(certgen.PolDV, []int{2, 23, 140, 1, 5, 1, 1}),
							certgen.SAN(false, certgen.GNDNS("example.com"), certgen.GNEmail("a@example.com")),
							certgen.AIA([2]*der.Node{der.OID(certgen.AIAOCSP...), certgen.GNURI(u)})},
					}
					run(s.Build(), same, fmt.Sprintf("AIA %q issued %s, TLD removed %s", u, issued.Format("2006-01-02"), e.Removal))
					rep.Inc("aia_hosts_under_since_removed_tld")
				}
				if n++; n >= 6 {
					break
				}
			}
			if n == 0 {
				rep.Hole("no TLD in the table was removed after both AIA rules became effective: the since-removed-TLD case of the AIA pair is not exercised")
			}
		}
		// (F) validity lengths 396..399 days ± 1 s
		for days := 395; days <= 400; days++ {
			for _, ds := range []int{-2, -1, 0, 1} {
				for _, start := range []time.Time{date(2020, 9, 1), date(2021, 3, 1), date(2024, 3, 1)} {
					s := tlsLeafSpec(start, start.AddDate(0, 0, days).Add(time.Duration(ds)*time.Second))
					run(s.Build(), same, fmt.Sprintf("validity %d days %+d s from %s", days, ds, start.Format("2006-01-02")))
				}
			}
		}
		// (G) given name / surname lengths
		var lens []int
		for l := 0; l <= 70; l++ {
			lens = append(lens, l)
		}
		for l := 32760; l <= 32775; l++ {
			lens = append(lens, l)
		}
		for _, l := range lens {
			for _, field := range [][]int{certgen.OIDGiven, certgen.OIDSurname} {
				for _, unit := range []string{"a", "\xc3\xa4"} {
					s := tlsLeafSpec(nb, na)
					s.Subject = certgen.Name(certgen.ATV{OID: certgen.OIDC, Tag: 19, Val: "US"}, certgen.ATV{OID: field, Tag: 12, Val: strings.Repeat(unit, l)},
						certgen.ATV{OID: certgen.OIDCN, Tag: 12, Val: "example.com"})
					run(s.Build(), same, fmt.Sprintf("name attribute %v of %d × %q", field, l, unit))
				}
			}
		}
	}

	// (H) every corpus state on which a precondition happens to hold
	all := seeds.Load()
	var certs []seeds.Seed
	for _, s := range all {
		if s.Kind == seeds.Cert {
			certs = append(certs, s)
		}
	}
	nth := 12
	if !ctx.Quick() {
		nth = 2
	}
	d1 := map[string]bool{}
	for i, s := range certs {
		if i%nth == 0 {
			d1[s.Name] = true
		}
	}
	visit := func(st *xstate.State) {
		c := st.Obj.Cert
		pre := map[string]bool{"same-cert": true}
		if bytes.Equal(c.RawIssuer, c.RawSubject) {
			pre["subject=issuer"] = true
		}
		cnOK := c.Subject.CommonName == ""
		for _, d := range c.DNSNames {
			if d == c.Subject.CommonName {
				cnOK = true
			}
		}
		if cnOK {
			pre["cn-in-san"] = true
		}
		for _, v := range c20Eval(st.Obj, reg, pre, rep) {
			rep.Violate(v[0], v[1]+" [seed "+st.Seed.Name+" path "+strings.Join(st.Path, ",")+"]", map[string]interface{}{"kind": "cert", "der_hex": hex.EncodeToString(st.DER), "pre": keysTrue(pre), "seed": st.Seed.Name, "path": st.Path})
		}
	}
	xstate.Explore(ctx, rep, xstate.Options{Seeds: certs, Depth: 0}, visit)
	var sub []seeds.Seed
	for _, s := range certs {
		if d1[s.Name] {
			sub = append(sub, s)
		}
	}
	xstate.Explore(ctx, rep, xstate.Options{Seeds: sub, Depth: 1, NoCompound: ctx.Quick()}, func(st *xstate.State) {
		if len(st.Path) > 0 {
			visit(st)
		}
	})
}

func keysTrue(m map[string]bool) []string {
	var out []string
	for k, v := range m {
		if v {
			out = append(out, k)
		}
	}
	sortStrings(out)
	return out
}

func replayC20(rp map[string]interface{}) (string, error) {
	st, err := stateFromReplay(rp)
	if err != nil {
		return "", err
	}
	pre := map[string]bool{}
	if l, ok := rp["pre"].([]interface{}); ok {
		for _, x := range l {
			pre[fmt.Sprint(x)] = true
		}
	}
	reg, err := c20Registry()
	if err != nil {
		return "", err
	}
	if r, _ := rp["registry"].(string); r == "global" {
		reg = lint.GlobalRegistry()
	}
	if bad := c20Eval(st.Obj, reg, pre, nil); len(bad) > 0 {
		return bad[0][0] + ": " + bad[0][1], nil
	}
	return "", nil
}
