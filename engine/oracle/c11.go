package oracle

import (
	"fmt"
	"reflect"
	"regexp"
	"strings"

	toml "github.com/pelletier/go-toml"
	"github.com/zmap/zlint/v3"
	"github.com/zmap/zlint/v3/lint"

	"verif/core"
	"verif/seeds"
	"verif/zl"
)

func init() {
	core.Checks["C11"] = checkC11
}

type cfgField struct {
	Name    string // TOML key
	GoName  string
	Kind    reflect.Kind
	Default interface{}
}

type cfgLint struct {
	Name   string
	Kind   seeds.Kind
	Fields []cfgField
}

func newInstance(kind seeds.Kind, name string) interface{} {
	g := lint.GlobalRegistry()
	switch kind {
	case seeds.Cert:
		if l := g.CertificateLints().ByName(name); l != nil {
			return l.Lint()
		}
	case seeds.CRL:
		if l := g.RevocationListLints().ByName(name); l != nil {
			return l.Lint()
		}
	default:
		if l := g.OcspResponseLints().ByName(name); l != nil {
			return l.Lint()
		}
	}
	return nil
}

// discoverConfigurable finds the configurable lints and their option fields by reflection.
func discoverConfigurable() []cfgLint {
	var out []cfgLint
	for _, d := range snapshotRegistry(lint.GlobalRegistry()) {
		var k seeds.Kind
		switch d.Kind {
		case "crl":
			k = seeds.CRL
		case "ocsp":
			k = seeds.OCSP
		}
		inst := newInstance(k, d.Name)
		c, ok := inst.(lint.Configurable)
		if !ok {
			continue
		}
		cl := cfgLint{Name: d.Name, Kind: k}
		v := reflect.Indirect(reflect.ValueOf(c.Configure()))
		if v.Kind() == reflect.Struct {
			for i := 0; i < v.NumField(); i++ {
				f := v.Type().Field(i)
				if f.PkgPath != "" {
					continue
				}
				key := f.Name
				if t := f.Tag.Get("toml"); t != "" && t != "-" {
					key = strings.Split(t, ",")[0]
				}
				switch f.Type.Kind() {
				case reflect.Bool, reflect.Int, reflect.Int64, reflect.String, reflect.Uint, reflect.Float64:
					cl.Fields = append(cl.Fields, cfgField{Name: key, GoName: f.Name, Kind: f.Type.Kind(), Default: v.Field(i).Interface()})
				}
			}
		}
		out = append(out, cl)
	}
	return out
}

func altValues(f cfgField) []interface{} {
	switch f.Kind {
	case reflect.Bool:
		return []interface{}{!f.Default.(bool)}
	case reflect.Int:
		d := f.Default.(int)
		return []interface{}{0, 1, 3, d + 1, 2 * d}
	case reflect.Int64:
		d := f.Default.(int64)
		return []interface{}{int64(0), d + 1}
	case reflect.Uint:
		return []interface{}{uint(0), uint(7)}
	case reflect.String:
		return []interface{}{"x", ""}
	case reflect.Float64:
		return []interface{}{0.5}
	}
	return nil
}

func tomlLit(v interface{}) string {
	switch x := v.(type) {
	case string:
		return fmt.Sprintf("%q", x)
	default:
		return fmt.Sprint(x)
	}
}

func wrongTypeLits(f cfgField) []string {
	switch f.Kind {
	case reflect.Bool:
		return []string{`"yes"`, `1`, `1.5`, `[true]`, `{a = 1}`}
	case reflect.String:
		return []string{`1`, `true`, `[1]`, `{a = 1}`}
	default:
		return []string{`"many"`, `true`, `1.5`, `[1, 2]`, `{a = 1}`}
	}
}

// refConfigured drives a fresh instance whose option field was set directly.
func refConfigured(o *zl.Obj, cl cfgLint, field string, val interface{}) *lint.LintResult {
	inst := newInstance(cl.Kind, cl.Name)
	if field != "" {
		t := reflect.Indirect(reflect.ValueOf(inst.(lint.Configurable).Configure()))
		fv := t.FieldByName(field)
		fv.Set(reflect.ValueOf(val).Convert(fv.Type()))
	}
	g := lint.GlobalRegistry()
	switch cl.Kind {
	case seeds.Cert:
		l := g.CertificateLints().ByName(cl.Name)
		in := inst.(lint.CertificateLintInterface)
		if !inScope(l.Source, o.Cert) || !in.CheckApplies(o.Cert) {
			return &lint.LintResult{Status: lint.NA}
		}
		if !refInWindow(l.EffectiveDate, l.IneffectiveDate, o.Cert.NotBefore) {
			return &lint.LintResult{Status: lint.NE}
		}
		return in.Execute(o.Cert)
	case seeds.CRL:
		l := g.RevocationListLints().ByName(cl.Name)
		in := inst.(lint.RevocationListLintInterface)
		if !in.CheckApplies(o.CRL) {
			return &lint.LintResult{Status: lint.NA}
		}
		if !refInWindow(l.EffectiveDate, l.IneffectiveDate, o.CRL.ThisUpdate) {
			return &lint.LintResult{Status: lint.NE}
		}
		return in.Execute(o.CRL)
	default:
		l := g.OcspResponseLints().ByName(cl.Name)
		in := inst.(lint.OcspResponseLintInterface)
		if !in.CheckApplies(o.OCSP) {
			return &lint.LintResult{Status: lint.NA}
		}
		if !refInWindow(l.EffectiveDate, l.IneffectiveDate, o.OCSP.NextUpdate) {
			return &lint.LintResult{Status: lint.NE}
		}
		return in.Execute(o.OCSP)
	}
}

type cfgDoc struct {
	desc string
	text string
	// expectation per configurable lint: "" default behaviour, "fatal", or "field=value"
	expect map[string]string
	vals   map[string]interface{}
	fields map[string]string
	loose  map[string]bool // either unchanged or fatal-with-config-error is acceptable (unknown key)
}

var unrelatedSections = []string{"", "[w_no_such_lint]\nx = 1\n", "[CABFBaselineRequirementsConfig]\n", "[RFC5280Config]\n\n[CommunityConfig]\n", "title = \"zlint\"\n[somebody.else]\nk = [1, 2]\n"}

func c11Docs(cls []cfgLint) []cfgDoc {
	var docs []cfgDoc
	for _, u := range unrelatedSections {
		docs = append(docs, cfgDoc{desc: "unrelated:" + fmt.Sprintf("%q", u), text: u, expect: map[string]string{}})
	}
	var singles []cfgDoc
	for _, cl := range cls {
		n := cl.Name
		add := func(desc, text, exp string, field string, val interface{}, loose bool) {
			d := cfgDoc{desc: n + ":" + desc, text: text, expect: map[string]string{}, vals: map[string]interface{}{}, fields: map[string]string{}, loose: map[string]bool{}}
			if exp != "" {
				d.expect[n] = exp
			}
			if field != "" {
				d.vals[n], d.fields[n] = val, field
			}
			if loose {
				d.loose[n] = true
			}
			singles = append(singles, d)
		}
		add("empty table", "["+n+"]\n", "", "", nil, false)
		add("unknown key", "["+n+"]\nno_such_option = 1\n", "", "", nil, true)
		for _, f := range cl.Fields {
			add(f.Name+"=default", fmt.Sprintf("[%s]\n%s = %s\n", n, f.Name, tomlLit(f.Default)), "", "", nil, false)
			for _, v := range altValues(f) {
				add(fmt.Sprintf("%s=%v", f.Name, v), fmt.Sprintf("[%s]\n%s = %s\n", n, f.Name, tomlLit(v)), "option", f.GoName, v, false)
			}
			for _, w := range wrongTypeLits(f) {
				add(fmt.Sprintf("%s=%s (wrong type)", f.Name, w), fmt.Sprintf("[%s]\n%s = %s\n", n, f.Name, w), "fatal", "", nil, false)
			}
		}
		for _, sc := range []string{"5", "true", `"x"`, "[]", "[1]", "1979-05-27T07:32:00Z"} {
			add("scalar "+sc, fmt.Sprintf("%s = %s\n", n, sc), "fatal", "", nil, false)
		}
		add("array of tables", fmt.Sprintf("[[%s]]\n", n), "fatal", "", nil, false)
		add("array of tables ×2", fmt.Sprintf("[[%s]]\nx = 1\n[[%s]]\nx = 2\n", n, n), "fatal", "", nil, false)
	}
	docs = append(docs, singles...)
	// pairs for two different lints
	for i, a := range singles {
		for j, b := range singles {
			if j <= i {
				continue
			}
			an, bn := strings.SplitN(a.desc, ":", 2)[0], strings.SplitN(b.desc, ":", 2)[0]
			if an == bn {
				continue
			}
			// keep the product small: combine "interesting" documents only
			if !(a.expect[an] != "" || a.loose[an]) || !(b.expect[bn] != "" || b.loose[bn]) {
				continue
			}
			if (i+j)%3 != 0 {
				continue
			}
			// top-level keys (scalar documents) must precede any table header
			first, second := a.text, b.text
			if strings.HasPrefix(first, "[") && !strings.HasPrefix(second, "[") {
				first, second = second, first
			}
			d := cfgDoc{desc: a.desc + " + " + b.desc, text: first + "\n" + second, expect: map[string]string{}, vals: map[string]interface{}{}, fields: map[string]string{}, loose: map[string]bool{}}
			for k, v := range a.expect {
				d.expect[k] = v
			}
			for k, v := range b.expect {
				d.expect[k] = v
			}
			for k, v := range a.vals {
				d.vals[k], d.fields[k] = v, a.fields[k]
			}
			for k, v := range b.vals {
				d.vals[k], d.fields[k] = v, b.fields[k]
			}
			for k := range a.loose {
				d.loose[k] = true
			}
			for k := range b.loose {
				d.loose[k] = true
			}
			docs = append(docs, d)
		}
	}
	return docs
}

var cfgErrRE = regexp.MustCompile(`(?i)configur`)

// c11Compare checks one run under a document against the baseline run.
func c11Compare(o *zl.Obj, base, got *zlint.ResultSet, d cfgDoc, cls []cfgLint) [][2]string {
	var bad [][2]string
	byName := map[string]cfgLint{}
	for _, c := range cls {
		byName[c.Name] = c
	}
	for n, b := range base.Results {
		r := got.Results[n]
		if r == nil || b == nil {
			continue
		}
		cl, isCfg := byName[n]
		exp := d.expect[n]
		switch {
		case isCfg && exp == "fatal":
			if r.Status != lint.Fatal || !cfgErrRE.MatchString(r.Details) || !strings.Contains(r.Details, n) {
				bad = append(bad, [2]string{"C11|" + n + "|no_config_error", fmt.Sprintf("%s: a section that cannot be applied must give fatal with a configuration error naming the lint; got %s %q", n, r.Status, r.Details)})
			}
		case isCfg && exp == "option":
			want := refConfigured(o, cl, d.fields[n], d.vals[n])
			if want.Status != r.Status || canonTokens(want.Details) != canonTokens(r.Details) {
				bad = append(bad, [2]string{"C11|" + n + "|option_not_applied", fmt.Sprintf("%s with %s=%v: a fresh instance with the field set gives %s %q, the configured run gives %s %q", n, d.fields[n], d.vals[n], want.Status, want.Details, r.Status, r.Details)})
			}
		case isCfg && d.loose[n]:
			if !(r.Status == b.Status && canonTokens(r.Details) == canonTokens(b.Details)) && !(r.Status == lint.Fatal && cfgErrRE.MatchString(r.Details)) {
				bad = append(bad, [2]string{"C11|" + n + "|unknown_key_effect", fmt.Sprintf("%s: unknown key changed the verdict to %s %q", n, r.Status, r.Details)})
			}
		default:
			if r.Status != b.Status || canonTokens(r.Details) != canonTokens(b.Details) {
				k := "other_lint_changed"
				if isCfg {
					k = "changed_without_option"
				}
				bad = append(bad, [2]string{"C11|" + n + "|" + k, fmt.Sprintf("%s: %s %q without configuration, %s %q under a document that does not name it", n, b.Status, b.Details, r.Status, r.Details)})
			}
		}
	}
	return bad
}

func fullCopy() lint.Registry {
	r, err := lint.GlobalRegistry().Filter(lint.FilterOptions{ExcludeSources: lint.SourceList{lint.UnknownLintSource}})
	if err != nil {
		panic(err)
	}
	return r
}

func checkC11(ctx *core.Ctx, rep *core.Report) {
	cls := discoverConfigurable()
	rep.Add("g_configurable_lints", int64(len(cls)))
	if len(cls) == 0 {
		rep.Hole("no configurable lint in this tree")
	}
	all := seeds.Load()
	// objects: for each configurable lint, seeds on which it is judged — preferring seeds
	// whose verdict depends on an option — plus a few others
	type target struct {
		sd  *seeds.Seed
		obj *zl.Obj
	}
	var targets []target
	chosen := map[string]bool{}
	freshRef := c11LoadRef()
	optDocs := c11OptionDocs(cls)
	for _, cl := range cls {
		reg, err := lint.GlobalRegistry().Filter(lint.FilterOptions{IncludeNames: []string{cl.Name}})
		if err != nil {
			continue
		}
		var dep, jud []int
		for i := range all {
			if all[i].Kind != cl.Kind {
				continue
			}
			o, err := zl.Parse(all[i].Kind, all[i].DER)
			if err != nil {
				continue
			}
			rs, p := zl.Lint(o, reg)
			if p != nil || rs == nil || rs.Results[cl.Name] == nil || !judged(rs.Results[cl.Name].Status) {
				continue
			}
			jud = append(jud, i)
			// option-dependent according to the fresh-process table (not contaminated by this process's history)
			if freshRef != nil {
				base, okb := freshRef[c11RefKey("empty", cl.Name, all[i].Name)]
				for _, d := range optDocs {
					if d.expect[cl.Name] != "option" {
						continue
					}
					if v, ok := freshRef[c11RefKey(d.desc, cl.Name, all[i].Name)]; ok && okb && v != base {
						dep = append(dep, i)
						break
					}
				}
			}
			for _, f := range cl.Fields {
				for _, v := range altValues(f) {
					if w := refConfigured(o, cl, f.GoName, v); w.Status != rs.Results[cl.Name].Status {
						dep = append(dep, i)
					}
				}
			}
		}
		pick := func(l []int, n int) {
			for _, i := range l {
				if n == 0 {
					return
				}
				if !chosen[all[i].Name] {
					chosen[all[i].Name] = true
					o, _ := zl.Parse(all[i].Kind, all[i].DER)
					targets = append(targets, target{&all[i], o})
					n--
				}
			}
		}
		nd, nj := 4, 2
		if !ctx.Quick() {
			nd, nj = 12, 6
		}
		pick(dep, nd)
		pick(jud, nj)
		if len(dep) == 0 {
			rep.Hole("no corpus object on which an option of %s changes its verdict", cl.Name)
		}
		rep.Note("%s: %d objects judged, %d with an option-dependent verdict", cl.Name, len(jud), len(dep))
	}
	docs := c11Docs(cls)
	rep.Add("g_documents", int64(len(docs)))
	rep.Add("g_objects", int64(len(targets)))

	// ---- generated example configuration -------------------------------------------------
	var defCfg lint.Configuration
	haveDef := false
	if ctx.Shard == 0 {
		b, err := lint.GlobalRegistry().DefaultConfiguration()
		art := map[string]interface{}{"op": "default_configuration"}
		if err != nil {
			rep.Violate("C11|default_config|error", "DefaultConfiguration fails: "+err.Error(), art)
		} else {
			tree, perr := toml.LoadBytes(b)
			if perr != nil {
				rep.Violate("C11|default_config|not_toml", "the generated example configuration is not valid TOML: "+perr.Error(), art)
			} else {
				for _, cl := range cls {
					rep.Inc("validated")
					sec, ok := tree.Get(cl.Name).(*toml.Tree)
					if !ok {
						rep.Violate("C11|default_config|missing_section|"+cl.Name, "the example configuration has no section for configurable lint "+cl.Name, art)
						continue
					}
					for _, f := range cl.Fields {
						if !sec.Has(f.Name) {
							rep.Violate("C11|default_config|missing_option|"+cl.Name, fmt.Sprintf("the example section of %s lacks option %s", cl.Name, f.Name), art)
						}
					}
				}
			}
			if c, cerr := lint.NewConfigFromString(string(b)); cerr == nil {
				defCfg, haveDef = c, true
			} else {
				rep.Violate("C11|default_config|not_loadable", "the example configuration is rejected by NewConfigFromString: "+cerr.Error(), art)
			}
		}
	}

	// ---- documents × objects × {global-copy, filtered copy} -------------------------------
	if freshRef == nil {
		rep.Note("no fresh-process reference table (VERIF_C11_REF): option documents are judged against the in-process reference only")
	}
	idx := uint64(0)
	for ti, tg := range targets {
		baseReg := fullCopy()
		base, p := zl.Lint(tg.obj, baseReg)
		if p != nil || base == nil {
			continue
		}
		// nil configuration vs. empty vs. the global registry itself
		gl, _ := zl.Lint(tg.obj, lint.GlobalRegistry())
		for _, cl := range cls {
			if why, ok := c11RefCompare(freshRef, "empty", cl.Name, tg.sd.Name, base.Results[cl.Name]); !ok {
				rep.Violate("C11|"+cl.Name+"|unconfigured_differs_from_fresh_process", cl.Name+" without configuration: "+why+" [seed "+tg.sd.Name+"]", map[string]interface{}{"op": "baseline", "seed": tg.sd.Name})
			}
		}
		if gl != nil && zl.Vector(gl, false) != zl.Vector(base, false) {
			rep.Violate("C11|copy_differs_from_global", "an unconfigured filtered copy judges differently from the global registry", map[string]interface{}{"op": "baseline", "seed": tg.sd.Name})
		}
		if haveDef {
			r := fullCopy()
			r.SetConfiguration(defCfg)
			got, p := zl.Lint(tg.obj, r)
			rep.Inc("validated")
			if p != nil {
				rep.Violate("C11|default_config|panic", fmt.Sprint(p), map[string]interface{}{"op": "default_configuration"})
			} else {
				for _, b := range c11Compare(tg.obj, base, got, cfgDoc{desc: "generated default", expect: map[string]string{}}, cls) {
					rep.Violate(strings.Replace(b[0], "C11|", "C11|default_config|", 1), b[1]+" [generated example configuration, seed "+tg.sd.Name+"]", map[string]interface{}{"op": "default_configuration", "seed": tg.sd.Name})
				}
			}
		}
		for di, d := range docs {
			idx++
			if !ctx.Mine(idx) {
				continue
			}
			cfg, err := lint.NewConfigFromString(d.text)
			if err != nil {
				rep.InternalError("document %q does not parse: %v", d.desc, err)
				continue
			}
			var gotFull *zlint.ResultSet
			regs := []lint.Registry{fullCopy()}
			if (di+ti)%4 == 0 {
				// a registry filtered to one source family still honours the configuration
				if r, err := lint.GlobalRegistry().Filter(lint.FilterOptions{ExcludeSources: lint.SourceList{lint.RFC5280}}); err == nil {
					regs = append(regs, r)
				}
			}
			for ri, r := range regs {
				r.SetConfiguration(cfg)
				got, p := zl.Lint(tg.obj, r)
				rep.Inc("states")
				rep.Inc("transitions")
				rep.Inc("validated")
				art := map[string]interface{}{"op": "document", "seed": tg.sd.Name, "toml": d.text, "registry": ri}
				if p != nil {
					key := "C11|panic"
					for n, e := range d.expect {
						if e == "fatal" {
							kind := "other"
							if strings.Contains(d.desc, "scalar") || strings.Contains(d.desc, "array of tables") {
								kind = "scalar"
							}
							key = "C11|" + n + "|panic|" + kind
						}
					}
					rep.Violate(key, fmt.Sprintf("linting panicked under configuration %q: %v [seed %s]", d.desc, p, tg.sd.Name), art)
					continue
				}
				for _, b := range c11Compare(tg.obj, base, got, d, cls) {
					rep.Violate(b[0], b[1]+" [document "+d.desc+", seed "+tg.sd.Name+"]", art)
				}
				if ri == 0 {
					gotFull = got
				}
				if ri == 0 {
					for n, e := range d.expect {
						if e != "option" {
							continue
						}
						rep.Inc("fresh_process_comparisons")
						if why, ok := c11RefCompare(freshRef, d.desc, n, tg.sd.Name, got.Results[n]); !ok {
							rep.Violate("C11|"+n+"|option_not_applied_from_next_run", n+": "+why+" [document "+d.desc+", seed "+tg.sd.Name+"]", art)
						}
					}
				}
				// the next run without the document is back to the baseline: nothing leaks between runs
				if di%5 == 0 {
					r.SetConfiguration(lint.NewEmptyConfig())
					again, p := zl.Lint(tg.obj, r)
					rep.Inc("validated")
					if p == nil && again != nil {
						for n, b := range again.Results {
							if bb := base.Results[n]; bb != nil && b != nil && (bb.Status != b.Status) {
								rep.Violate("C11|"+n+"|leak_between_runs", fmt.Sprintf("%s: after removing the configuration the verdict stays %s (baseline %s) [document %s]", n, b.Status, bb.Status, d.desc), art)
							}
						}
					}
				}
			}
			// a registry from which the lint the document speaks to has been DESELECTED: the section is still a valid section
			// of a known lint — it changes nothing, produces nothing, and nothing is reported under its name
			if (di+ti)%3 == 0 && gotFull != nil {
				for n := range d.expect {
					r3, err := lint.GlobalRegistry().Filter(lint.FilterOptions{ExcludeNames: []string{n}})
					if err != nil {
						continue
					}
					r3.SetConfiguration(cfg)
					got3, p := zl.Lint(tg.obj, r3)
					rep.Inc("states")
					rep.Inc("transitions")
					rep.Inc("validated")
					rep.Inc("deselected_lint_runs")
					art := map[string]interface{}{"op": "document_deselected", "seed": tg.sd.Name, "toml": d.text, "deselected": n}
					if p != nil || got3 == nil {
						rep.Violate("C11|"+n+"|deselected|panic", fmt.Sprintf("linting panicked under configuration %q with %s deselected: %v", d.desc, n, p), art)
						continue
					}
					fatal := false
					for name, b := range got3.Results {
						bb := gotFull.Results[name] // what the same document gives this lint when nothing is deselected
						if b != nil && b.Status == lint.Fatal {
							fatal = true
						}
						switch {
						case name == n:
							rep.Violate("C11|"+n+"|deselected|result_for_deselected", fmt.Sprintf("a result named %s is reported although the lint is deselected (its section is in the configuration)", n), art)
						case bb == nil:
							rep.Violate("C11|"+n+"|deselected|extra_result", fmt.Sprintf("a result named %q appears that belongs to no selected lint [document %s, %s deselected]", name, d.desc, n), art)
						case b != nil && bb.Status != b.Status:
							rep.Violate("C11|"+name+"|deselected|changed_by_foreign_section", fmt.Sprintf("%s: %s under the document with every lint selected, %s under the same document once %s is deselected [document %s]", name, bb.Status, b.Status, n, d.desc), art)
						}
					}
					if got3.FatalsPresent && !fatal {
						rep.Violate("C11|"+n+"|deselected|fatal_flag", fmt.Sprintf("FatalsPresent is raised by a section of the deselected lint %s [document %s]", n, d.desc), art)
					}
				}
			}
			rep.Sample(3, map[string]interface{}{"document": d.desc, "seed": tg.sd.Name})
		}
	}
	// ---- every seed under the option documents in succession, against the fresh-process table --------
	if freshRef != nil {
		for ci, cl := range cls {
			if !ctx.Mine(uint64(ci)) {
				continue
			}
			reg, err := lint.GlobalRegistry().Filter(lint.FilterOptions{IncludeNames: []string{cl.Name}})
			if err != nil {
				continue
			}
			for _, d := range optDocs {
				if d.desc != "empty" && d.expect[cl.Name] != "option" {
					continue
				}
				cfg, err := lint.NewConfigFromString(d.text)
				if err != nil {
					continue
				}
				reg.SetConfiguration(cfg)
				for i := range all {
					if all[i].Kind != cl.Kind {
						continue
					}
					o, err := zl.Parse(all[i].Kind, all[i].DER)
					if err != nil {
						continue
					}
					rs, p := zl.Lint(o, reg)
					if p != nil || rs == nil {
						continue
					}
					rep.Inc("states")
					rep.Inc("transitions")
					rep.Inc("validated")
					rep.Inc("fresh_process_comparisons")
					if why, ok := c11RefCompare(freshRef, d.desc, cl.Name, all[i].Name, rs.Results[cl.Name]); !ok {
						rep.Violate("C11|"+cl.Name+"|option_not_applied_from_next_run", cl.Name+": "+why+" [document "+d.desc+", seed "+all[i].Name+"]",
							map[string]interface{}{"op": "document_sweep", "seed": all[i].Name, "toml": d.text})
					}
				}
			}
		}
	}
	if ctx.Shard == 0 {
		c11Histories(ctx, rep, cls, func() []*zl.Obj {
			var o []*zl.Obj
			for _, t := range targets {
				o = append(o, t.obj)
			}
			return o
		}())
	}
}

// c11Histories: all sequences of depth ≤ 4 over {SetConfiguration(x) on A / on B,
// lint with A / with B, B := A.Filter(...)} with x ∈ {option document, ill-typed
// document, empty}; every lint result must equal the one a fresh registry
// carrying the model's configuration gives (two registries alive at once).
func c11Histories(ctx *core.Ctx, rep *core.Report, cls []cfgLint, objs []*zl.Obj) {
	if len(cls) == 0 || len(objs) == 0 {
		return
	}
	var names []string
	for _, c := range cls {
		names = append(names, c.Name)
	}
	// a few non-configurable lints ride along
	for _, n := range []string{"e_basic_constraints_not_critical", "e_crl_has_next_update", "w_rsa_mod_not_odd"} {
		if _, ok := zl.Meta(seeds.Cert, lint.GlobalRegistry(), n); ok {
			names = append(names, n)
		} else if _, ok := zl.Meta(seeds.CRL, lint.GlobalRegistry(), n); ok {
			names = append(names, n)
		}
	}
	fo := lint.FilterOptions{IncludeNames: names}
	var optDoc, badDoc string
	for _, cl := range cls {
		for _, f := range cl.Fields {
			if v := altValues(f); len(v) > 0 {
				optDoc += fmt.Sprintf("[%s]\n%s = %s\n", cl.Name, f.Name, tomlLit(v[0]))
				break
			}
		}
		badDoc += fmt.Sprintf("%s = 5\n", cl.Name)
	}
	texts := map[string]string{"opt": optDoc, "bad": badDoc, "empty": ""}
	cfgs := map[string]lint.Configuration{}
	for k, t := range texts {
		c, err := lint.NewConfigFromString(t)
		if err != nil {
			rep.InternalError("history document %s: %v", k, err)
			return
		}
		cfgs[k] = c
	}
	// fresh baseline per (config, object)
	baseline := map[string]string{}
	for k, c := range cfgs {
		for oi, o := range objs {
			r, _ := lint.GlobalRegistry().Filter(fo)
			r.SetConfiguration(c)
			rs, p := zl.Lint(o, r)
			if p != nil {
				baseline[fmt.Sprintf("%s|%d", k, oi)] = "PANIC"
			} else {
				baseline[fmt.Sprintf("%s|%d", k, oi)] = zl.Vector(rs, false)
			}
		}
	}
	ops := []string{"setA:opt", "setA:bad", "setA:empty", "setB:opt", "setB:bad", "setB:empty", "lintA", "lintB", "refilter"}
	depth := 4
	if ctx.Quick() {
		depth = 3
	}
	var rec func(seq []int)
	count := 0
	rec = func(seq []int) {
		if len(seq) > 0 {
			count++
			// replay the sequence on fresh registries (live objects cannot be cloned)
			A, _ := lint.GlobalRegistry().Filter(fo)
			B, _ := A.Filter(lint.FilterOptions{ExcludeNames: []string{names[len(names)-1]}})
			mA, mB := "empty", "empty"
			var desc []string
			for _, oi := range seq {
				op := ops[oi]
				desc = append(desc, op)
				switch {
				case strings.HasPrefix(op, "setA:"):
					mA = op[5:]
					A.SetConfiguration(cfgs[mA])
				case strings.HasPrefix(op, "setB:"):
					mB = op[5:]
					B.SetConfiguration(cfgs[mB])
				case op == "refilter":
					B, _ = A.Filter(lint.FilterOptions{ExcludeNames: []string{names[len(names)-1]}})
					mB = mA
				case op == "lintA", op == "lintB":
					reg, m := A, mA
					if op == "lintB" {
						reg, m = B, mB
					}
					for oi2, o := range objs {
						if oi2 >= 3 {
							break
						}
						rs, p := zl.Lint(o, reg)
						rep.Inc("transitions")
						rep.Inc("validated")
						got := "PANIC"
						if p == nil {
							got = zl.Vector(rs, false)
						}
						want := baseline[fmt.Sprintf("%s|%d", m, oi2)]
						if op == "lintB" {
							// B lacks one lint: compare on the lints it has
							want = dropLine(want, names[len(names)-1])
							got = dropLine(got, names[len(names)-1])
							want, got = dropLine(want, "flags"), dropLine(got, "flags")
						}
						if got != want {
							rep.Violate("C11|history|configuration_leak", fmt.Sprintf("after %v the registry carrying configuration %q does not behave like a fresh registry with it", desc, m),
								map[string]interface{}{"op": "history", "sequence": desc})
						}
					}
				}
			}
			rep.Inc("states")
			rep.Inc("histories")
		}
		if len(seq) == depth {
			return
		}
		for i := range ops {
			rec(append(seq, i))
		}
	}
	rec(nil)
}

func dropLine(vec, name string) string {
	var out []string
	for _, l := range strings.Split(vec, "\n") {
		if !strings.HasPrefix(l, name+"=") {
			out = append(out, l)
		}
	}
	return strings.Join(out, "\n")
}
