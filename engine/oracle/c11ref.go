package oracle

import (
	"encoding/json"
	"fmt"
	"os"
	"strconv"

	"github.com/zmap/zlint/v3/lint"

	"verif/core"
	"verif/seeds"
	"verif/zl"
)

// C11ref — the fresh-process reference for "setting a lint's option changes that lint's behaviour from
// the next run on". A reference computed inside the exploring process shares that process's package-level
// state with the run it judges: a verdict memoised under one configuration and served under the next one
// would contaminate both sides alike. So every option document gets its own process whose *only* work is
// to lint every seed of the lint's kind once, under that document, on a one-lint registry; the driver
// merges the tables and the exploring process compares its configured runs against them.
//
//	verifrun run C11ref -args doc=<i>   (doc=-1: only count the documents)
func init() {
	core.Checks["C11ref"] = checkC11ref
}

// c11OptionDocs: the single-lint documents that set one well-typed option, plus the empty document.
func c11OptionDocs(cls []cfgLint) []cfgDoc {
	out := []cfgDoc{{desc: "empty", text: "", expect: map[string]string{}}}
	for _, d := range c11Docs(cls) {
		if len(d.expect) == 1 && len(d.vals) == 1 {
			for _, e := range d.expect {
				if e == "option" {
					out = append(out, d)
				}
			}
		}
	}
	return out
}

func c11RefKey(doc, lintName, seed string) string { return doc + "\x00" + lintName + "\x00" + seed }

func checkC11ref(ctx *core.Ctx, rep *core.Report) {
	cls := discoverConfigurable() // constructors and Configure() only: no lint body runs here
	docs := c11OptionDocs(cls)
	rep.Add("g_option_docs", int64(len(docs)))
	di := argInt(ctx, "doc", -1)
	if di < 0 || di >= len(docs) {
		return
	}
	d := docs[di]
	cfg, err := lint.NewConfigFromString(d.text)
	if err != nil {
		rep.InternalError("document %q: %v", d.desc, err)
		return
	}
	var which []cfgLint
	for _, cl := range cls {
		if d.desc == "empty" || d.expect[cl.Name] != "" {
			which = append(which, cl)
		}
	}
	all := seeds.Load()
	for _, cl := range which {
		reg, err := lint.GlobalRegistry().Filter(lint.FilterOptions{IncludeNames: []string{cl.Name}})
		if err != nil {
			rep.InternalError("%v", err)
			return
		}
		reg.SetConfiguration(cfg)
		for i := range all {
			if all[i].Kind != cl.Kind {
				continue
			}
			o, err := zl.Parse(all[i].Kind, all[i].DER)
			if err != nil {
				continue
			}
			rs, p := zl.Lint(o, reg)
			v := "PANIC"
			if p == nil && rs != nil && rs.Results[cl.Name] != nil {
				r := rs.Results[cl.Name]
				v = r.Status.String() + "|" + canonTokens(r.Details)
			}
			rep.SetAdd("c11ref", c11RefKey(d.desc, cl.Name, all[i].Name)+"\x00"+v)
			rep.Inc("states")
		}
	}
}

// c11LoadRef reads the merged fresh-process table written by the driver (VERIF_C11_REF).
func c11LoadRef() map[string]string {
	p := os.Getenv("VERIF_C11_REF")
	if p == "" {
		return nil
	}
	b, err := os.ReadFile(p)
	if err != nil {
		return nil
	}
	var m map[string]string
	if json.Unmarshal(b, &m) != nil {
		return nil
	}
	return m
}

func c11RefCompare(ref map[string]string, doc, lintName, seed string, r *lint.LintResult) (string, bool) {
	if ref == nil || r == nil {
		return "", true
	}
	want, ok := ref[c11RefKey(doc, lintName, seed)]
	if !ok {
		return "", true
	}
	got := r.Status.String() + "|" + canonTokens(r.Details)
	if got != want {
		return fmt.Sprintf("a fresh process that lints this object under this document as its first work gives %s, this process (which linted the object under other configurations before) gives %s", strconv.Quote(want), strconv.Quote(got)), false
	}
	return "", true
}
