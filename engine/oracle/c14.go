package oracle

import (
	"time"
	"os"
	"bytes"
	"encoding/json"
	"fmt"
	"strings"
	"sync"
	"unicode/utf8"

	"github.com/zmap/zlint/v3"
	"github.com/zmap/zlint/v3/formattedoutput"
	"github.com/zmap/zlint/v3/lint"

	"verif/core"
	"verif/seeds"
	"verif/xstate"
	"verif/zl"
)

func init() {
	core.Checks["C14"] = checkC14
	core.Replayers["C14"] = replayC14
}

// the documented, stable label of every status value
var c14Labels = map[lint.LintStatus]string{
	lint.Reserved: "reserved", lint.NA: "NA", lint.NE: "NE", lint.Pass: "pass",
	lint.Notice: "info", lint.Warn: "warn", lint.Error: "error", lint.Fatal: "fatal",
}

// refJSONString: what a JSON round trip does to a Go string — every invalid
// byte becomes U+FFFD, everything else is exact.
func refJSONString(s string) string {
	var sb strings.Builder
	for i := 0; i < len(s); {
		r, n := utf8.DecodeRuneInString(s[i:])
		if r == utf8.RuneError && n == 1 {
			sb.WriteRune('�')
		} else {
			sb.WriteString(s[i : i+n])
		}
		i += n
	}
	return sb.String()
}

// c14RoundTrip encodes and decodes a result set and compares what the property names.
func c14RoundTrip(rs *zlint.ResultSet) [][2]string {
	var bad [][2]string
	b, err := json.Marshal(rs)
	if err != nil {
		return [][2]string{{"C14|marshal_error", err.Error()}}
	}
	var back zlint.ResultSet
	if err := json.Unmarshal(b, &back); err != nil {
		return [][2]string{{"C14|unmarshal_error", "own output is not decodable: " + err.Error()}}
	}
	if len(back.Results) != len(rs.Results) {
		bad = append(bad, [2]string{"C14|results_lost", fmt.Sprintf("%d results encoded, %d decoded", len(rs.Results), len(back.Results))})
	}
	for n, r := range rs.Results {
		q := back.Results[n]
		if r == nil {
			continue
		}
		if q == nil {
			bad = append(bad, [2]string{"C14|result_missing", "result of " + n + " lost in the round trip"})
			continue
		}
		if q.Status != r.Status {
			bad = append(bad, [2]string{"C14|status_changed", fmt.Sprintf("%s: status %s decoded as %s", n, r.Status, q.Status)})
		}
		if q.Details != refJSONString(r.Details) {
			bad = append(bad, [2]string{"C14|details_changed", fmt.Sprintf("%s: details %q decoded as %q", n, r.Details, q.Details)})
		}
	}
	if back.NoticesPresent != rs.NoticesPresent || back.WarningsPresent != rs.WarningsPresent || back.ErrorsPresent != rs.ErrorsPresent || back.FatalsPresent != rs.FatalsPresent {
		bad = append(bad, [2]string{"C14|flags_changed", "presence flags differ after the round trip"})
	}
	if back.Version != rs.Version {
		bad = append(bad, [2]string{"C14|version_changed", "version differs after the round trip"})
	}
	// the Results map alone as well
	mb, err := json.Marshal(rs.Results)
	if err == nil {
		var m map[string]*lint.LintResult
		if err := json.Unmarshal(mb, &m); err != nil {
			bad = append(bad, [2]string{"C14|unmarshal_error", "Results map not decodable: " + err.Error()})
		} else {
			for n, r := range rs.Results {
				if r != nil && (m[n] == nil || m[n].Status != r.Status) {
					bad = append(bad, [2]string{"C14|status_changed", "Results map: " + n})
				}
			}
		}
	}
	return bad
}

func checkC14(ctx *core.Ctx, rep *core.Report) {
	if ctx.Shard == 0 {
		c14Labelspace(rep)
		c14Details(rep)
		c14WriteJSON(rep)
	}
	// every result set produced by linting the X state space
	all := seeds.Load()
	nth := 16
	if !ctx.Quick() {
		nth = 2
	}
	sel := pickSeeds(all, argInt(ctx, "nth", nth))
	g := lint.GlobalRegistry()
	xstate.Explore(ctx, rep, xstate.Options{Seeds: sel, Depth: 1, NoCompound: ctx.Quick()}, func(st *xstate.State) {
		rs, p := zl.Lint(st.Obj, g)
		if p != nil || rs == nil {
			return // C01/C02 territory
		}
		rep.Inc("validated")
		for _, r := range rs.Results {
			if r != nil && r.Details != "" {
				rep.SetAddHash("distinct_details", core.HashStr(r.Details))
			}
		}
		for _, b := range c14RoundTrip(rs) {
			rep.Violate(b[0], b[1]+" [seed "+st.Seed.Name+" path "+strings.Join(st.Path, ",")+"]", st.Replay())
		}
		rep.Sample(2, map[string]interface{}{"seed": st.Seed.Name, "path": st.Path})
	})
	regHistories(ctx, rep, "C14", map[string]bool{"listing": true}, regHistDepth(ctx))
	if ctx.Shard < 2 {
		// the label space once more, from a process that has by now linted, encoded, decoded and listed — and printed the
		// tabular summaries, the one public consumer of the status labels that lives outside package lint: "unknown
		// labels are rejected" and "each status has its own stable label" are not properties of a fresh process only
		if devnull, err := os.OpenFile(os.DevNull, os.O_WRONLY, 0); err == nil {
			saved := os.Stdout
			os.Stdout = devnull
			for _, long := range []bool{false, true} {
				for st := lint.LintStatus(0); st <= 7; st++ {
					func() {
						defer func() { _ = recover() }()
						formattedoutput.OutputSummary(&zlint.ResultSet{Version: 3, Results: map[string]*lint.LintResult{"e_x": {Status: st, Details: "d"}, "w_y": {Status: lint.Pass}}}, long)
					}()
				}
			}
			os.Stdout = saved
			devnull.Close()
		}
		before := len(rep.Violations)
		c14Labelspace(rep)
		if len(rep.Violations) > before {
			rep.Note("label-space violations above were found on the SECOND pass, after the process had linted, encoded, listed and printed summaries (history-dependent)")
		}
		if n := len(lint.StatusLabelToLintStatus); n != 8 {
			rep.Violate("C14|label_table_grew", fmt.Sprintf("the exported label table holds %d labels after the process has linted, encoded, listed and printed summaries (8 defined statuses)", n), map[string]interface{}{"op": "label", "item": "table"})
		}
		rep.Inc("label_space_passes_after_history")
	}
	if ctx.Shard == 0 {
		c14WriteJSONAcrossKinds(rep) // last: it adds lints to this process's global registry
	}
}

// c14Retention: all sequences of ≤ 3 direct encodings (LintStatus.MarshalJSON, LintSource.MarshalJSON,
// json.Marshal of a whole result in between), every returned byte slice *kept* until the end of the
// sequence and then compared with its label — an encoder that hands out a recycled buffer is exact
// call by call and wrong as soon as two encodings are alive at once. Followed by a concurrent pass
// (8 goroutines, a detector, labelled as such) over the same encodings.
func c14Retention(rep *core.Report) {
	art := func(x string) map[string]interface{} { return map[string]interface{}{"op": "retention", "item": x} }
	type enc struct {
		name string
		want string
		f    func() ([]byte, error)
	}
	var alphabet []enc
	for st := lint.LintStatus(0); st <= 7; st++ {
		st := st
		alphabet = append(alphabet, enc{"status:" + c14Labels[st], `"` + c14Labels[st] + `"`, func() ([]byte, error) { return st.MarshalJSON() }})
	}
	for _, src := range sortedSources(lint.GlobalRegistry()) {
		src := src
		if len(alphabet) >= 11 {
			break
		}
		alphabet = append(alphabet, enc{"source:" + string(src), `"` + string(src) + `"`, func() ([]byte, error) { return json.Marshal(src) }})
	}
	resEnc := func() ([]byte, error) { return json.Marshal(&lint.LintResult{Status: lint.Warn, Details: "x"}) }
	if b, err := resEnc(); err == nil { // one call alone, copied at once, is the expectation for the result object
		alphabet = append(alphabet, enc{"result", string(append([]byte(nil), b...)), resEnc})
	}
	var rec func(seq []int)
	rec = func(seq []int) {
		if len(seq) > 0 {
			rep.Inc("states")
			rep.Inc("retention_sequences")
			outs := make([][]byte, len(seq))
			for i, a := range seq {
				b, err := alphabet[a].f()
				rep.Inc("transitions")
				if err != nil {
					rep.Violate("C14|retention|error", alphabet[a].name+": "+err.Error(), art(alphabet[a].name))
					return
				}
				outs[i] = b
			}
			rep.Inc("validated")
			for i, a := range seq {
				if string(outs[i]) != alphabet[a].want {
					var names []string
					for _, x := range seq {
						names = append(names, alphabet[x].name)
					}
					rep.Violate("C14|retention|encoding_overwritten", fmt.Sprintf("after the encodings %v, the bytes returned for %s read %q instead of %s: a later encoding overwrote an earlier one", names, alphabet[a].name, outs[i], alphabet[a].want), art(strings.Join(names, ",")))
					return
				}
			}
		}
		if len(seq) == 3 {
			return
		}
		for i := range alphabet {
			rec(append(append([]int{}, seq...), i))
		}
	}
	rec(nil)
	// concurrent pass: the same encodings from 8 goroutines at once
	var wg sync.WaitGroup
	bad := make([]string, 8)
	for w := 0; w < 8; w++ {
		w := w
		wg.Add(1)
		go func() {
			defer wg.Done()
			for i := 0; i < 4000 && bad[w] == ""; i++ {
				st := lint.LintStatus((i + w) % 8)
				rs := map[string]*lint.LintResult{"e_a": {Status: st, Details: "d"}, "w_b": {Status: lint.LintStatus((i + 3*w + 1) % 8)}}
				b, err := json.Marshal(rs)
				var back map[string]*lint.LintResult
				if err == nil {
					err = json.Unmarshal(b, &back)
				}
				if err != nil || back["e_a"] == nil || back["w_b"] == nil || back["e_a"].Status != st || back["w_b"].Status != rs["w_b"].Status {
					bad[w] = fmt.Sprintf("%s (err %v)", b, err)
				}
			}
		}()
	}
	wg.Wait()
	rep.Add("concurrent_roundtrips", 8*4000)
	for _, b := range bad {
		if b != "" {
			rep.Violate("C14|concurrent_roundtrip", "JSON round trip of a result map from 8 goroutines at once does not reproduce the statuses: "+b, art("concurrent"))
			break
		}
	}
}

func c14Labelspace(rep *core.Report) {
	art := func(x string) map[string]interface{} { return map[string]interface{}{"op": "label", "item": x} }
	seen := map[string]lint.LintStatus{}
	for st := lint.LintStatus(0); st <= 7; st++ {
		rep.Inc("states")
		b, err := json.Marshal(st)
		if err != nil {
			rep.Violate("C14|label_marshal", err.Error(), art(fmt.Sprint(int(st))))
			continue
		}
		var lbl string
		_ = json.Unmarshal(b, &lbl)
		if lbl != c14Labels[st] || st.String() != c14Labels[st] {
			rep.Violate("C14|label_not_stable|"+fmt.Sprint(int(st)), fmt.Sprintf("status %d is labelled %q, the stable label is %q", int(st), lbl, c14Labels[st]), art(lbl))
		}
		if o, dup := seen[lbl]; dup {
			rep.Violate("C14|label_not_distinct", fmt.Sprintf("statuses %d and %d share the label %q", int(o), int(st), lbl), art(lbl))
		}
		seen[lbl] = st
		var back lint.LintStatus = 99
		if err := json.Unmarshal(b, &back); err != nil || back != st {
			rep.Violate("C14|label_roundtrip|"+fmt.Sprint(int(st)), fmt.Sprintf("status %d → %s → %d (err %v)", int(st), b, int(back), err), art(lbl))
		}
		rep.Inc("validated")
	}
	c14Retention(rep)
	// synthetic result sets: every status in a result, with each flag combination
	for st := lint.LintStatus(0); st <= 7; st++ {
		for flags := 0; flags < 16; flags++ {
			rs := &zlint.ResultSet{Version: 3, Results: map[string]*lint.LintResult{"e_x": {Status: st, Details: "d"}, "w_y": {Status: lint.Pass}},
				NoticesPresent: flags&1 != 0, WarningsPresent: flags&2 != 0, ErrorsPresent: flags&4 != 0, FatalsPresent: flags&8 != 0}
			rep.Inc("states")
			rep.Inc("validated")
			for _, b := range c14RoundTrip(rs) {
				rep.Violate(b[0], b[1]+fmt.Sprintf(" [synthetic status %d flags %04b]", int(st), flags), art("synthetic"))
			}
		}
	}
	// non-labels must be rejected
	var non []string
	for _, l := range c14Labels {
		non = append(non, " "+l, l+" ", l+"x", "x"+l, l[1:], l[:len(l)-1], "\""+l+"\"", l+"\"", "\""+l, l[:1]+"\""+l[1:], "'"+l+"'", l+"\\", l+"\x00")
		if u := strings.ToUpper(l); u != l {
			non = append(non, u)
		}
		if lo := strings.ToLower(l); lo != l {
			non = append(non, lo)
		}
		if t := strings.Title(l); t != l {
			non = append(non, t)
		}
	}
	non = append(non, "", "notice", "warning", "err", "fail", "ok", "unknown", "0", "3", "null", "true", "Reserved", "na", "ne", "n/a")
	isLabel := map[string]bool{}
	for _, l := range c14Labels {
		isLabel[l] = true
	}
	for _, s := range non {
		if isLabel[s] {
			continue
		}
		rep.Inc("states")
		rep.Inc("validated")
		b, _ := json.Marshal(s)
		var st lint.LintStatus
		if err := json.Unmarshal(b, &st); err == nil {
			rep.Violate("C14|unknown_label_accepted", fmt.Sprintf("decoding the unknown label %q succeeds (status %d)", s, int(st)), art(s))
		}
		var r lint.LintResult
		if err := json.Unmarshal([]byte(`{"result":`+string(b)+`}`), &r); err == nil {
			rep.Violate("C14|unknown_label_accepted", fmt.Sprintf("decoding a result with the unknown label %q succeeds", s), art(s))
		}
	}
	// bare JSON numbers / booleans are not labels either
	for _, raw := range []string{`3`, `6`, `true`, `3.0`, `[ "pass" ]`, `{"a":"pass"}`} {
		var st lint.LintStatus
		rep.Inc("validated")
		if err := json.Unmarshal([]byte(raw), &st); err == nil {
			rep.Violate("C14|unknown_label_accepted", fmt.Sprintf("decoding %s as a status succeeds (status %d)", raw, int(st)), art(raw))
		}
	}
	rep.Sample(4, map[string]interface{}{"non_labels_tried": len(non)})
}

// c14Details: all byte strings of length ≤ 3 over a 12-atom alphabet.
func c14Details(rep *core.Report) {
	atoms := [][]byte{{0x00}, {0x22}, {0x5c}, {0x3c}, {0x26}, {0x41}, {0x7f}, {0x80}, {0xc2}, {0xe2}, {0xff}, {0xe2, 0x80, 0xa8}}
	var rec func(prefix []byte, depth int)
	rec = func(prefix []byte, depth int) {
		if len(prefix) > 0 || depth == 0 {
			rs := &zlint.ResultSet{Version: 3, Results: map[string]*lint.LintResult{"e_x": {Status: lint.Error, Details: string(prefix)}}, ErrorsPresent: true}
			rep.Inc("states")
			rep.Inc("validated")
			rep.Inc("details_strings")
			for _, b := range c14RoundTrip(rs) {
				rep.Violate(b[0], b[1]+fmt.Sprintf(" [details bytes %x]", prefix), map[string]interface{}{"op": "details", "hex": fmt.Sprintf("%x", prefix)})
			}
		}
		if depth == 3 {
			return
		}
		for _, a := range atoms {
			rec(append(append([]byte{}, prefix...), a...), depth+1)
		}
	}
	rec(nil, 0)
}

func c14WriteJSON(rep *core.Report) {
	for _, nr := range RegistryFamily() {
		c14WriteJSONOne(rep, nr.Name, nr.Reg)
	}
}

// c14WriteJSONOne: the listing as a multiset of (name, description, citation, source) lines equals the
// multiset of the lints the registry lists per kind.
func c14WriteJSONOne(rep *core.Report, regName string, reg lint.Registry) {
	var buf bytes.Buffer
	reg.WriteJSON(&buf)
	tuple := func(n, d, c string, s lint.LintSource) string {
		return n + "\x00" + d + "\x00" + c + "\x00" + string(s)
	}
	want := map[string]int{}
	names := map[string]bool{}
	total := 0
	for _, d := range snapshotRegistry(reg) {
		want[tuple(d.Name, d.Meta.Description, d.Meta.Citation, d.Meta.Source)]++
		names[d.Name] = true
		total++
	}
	art := map[string]interface{}{"op": "writejson", "registry": regName}
	lines := strings.Split(strings.TrimRight(buf.String(), "\n"), "\n")
	if buf.Len() == 0 {
		lines = nil
	}
	got := map[string]int{}
	rep.Inc("states")
	for _, ln := range lines {
		rep.Inc("transitions")
		rep.Inc("validated")
		var m struct {
			Name        string          `json:"name"`
			Description string          `json:"description"`
			Citation    string          `json:"citation"`
			Source      lint.LintSource `json:"source"`
		}
		if err := json.Unmarshal([]byte(ln), &m); err != nil {
			rep.Violate("C14|writejson_undecodable", fmt.Sprintf("registry %s: line does not decode (%v): %.120s", regName, err, ln), art)
			continue
		}
		if !names[m.Name] {
			rep.Violate("C14|writejson_extra", "registry "+regName+": line for unregistered lint "+m.Name, art)
			continue
		}
		t := tuple(m.Name, m.Description, m.Citation, m.Source)
		got[t]++
		if want[t] == 0 {
			rep.Violate("C14|writejson_fields", "registry "+regName+": a line of "+m.Name+" does not decode to the name, description, citation and source of a registered lint", art)
		}
	}
	for t, n := range want {
		if got[t] != n {
			rep.Violate("C14|writejson_line_count", fmt.Sprintf("registry %s: %d lines for registered lint %s (%d registered under that description)", regName, got[t], strings.SplitN(t, "\x00", 2)[0], n), art)
		}
	}
	if len(lines) != total {
		rep.Violate("C14|writejson_line_count", fmt.Sprintf("registry %s: %d lines for %d lints", regName, len(lines), total), art)
	}
}

// c14WriteJSONAcrossKinds runs LAST in its process: it registers, through the public API, three mock
// lints that share one name across the certificate, CRL and OCSP tables (uniqueness is enforced per
// kind only) with distinct descriptions, citations and sources; the listing of the global registry and of
// filtered registries must still carry one line per registered lint, each with that lint's own fields.
func c14WriteJSONAcrossKinds(rep *core.Report) {
	const name = "n_zz_verif_same_name"
	defer func() {
		if r := recover(); r != nil {
			rep.Note("cross-kind registration of one name is refused in this tree (%v): nothing to list", r)
		}
	}()
	lint.RegisterCertificateLint(&lint.CertificateLint{LintMetadata: lint.LintMetadata{Name: name, Description: "mock certificate lint", Citation: "cert §1", Source: lint.Community},
		Lint: func() lint.CertificateLintInterface { return mockCert{lint.Pass} }})
	lint.RegisterRevocationListLint(&lint.RevocationListLint{LintMetadata: lint.LintMetadata{Name: name, Description: "mock CRL lint", Citation: "crl §2", Source: lint.RFC5280},
		Lint: func() lint.RevocationListLintInterface { return mockCRL{lint.Pass} }})
	lint.RegisterOcspResponseLint(&lint.OcspResponseLint{LintMetadata: lint.LintMetadata{Name: name, Description: "mock OCSP lint", Citation: "ocsp §3", Source: lint.RFC6960},
		Lint: func() lint.OcspResponseLintInterface { return mockOCSP{lint.Pass} }})
	// lints whose metadata is unusual but legal: dates no calendar library likes (year 0, 10000+), empty citation, text that
	// needs escaping — every registered lint has its line, whatever it carries
	for i, m := range []lint.LintMetadata{
		{Name: "n_zz_verif_meta_far_future", Description: "ineffective in year 12000", Citation: "§x", Source: lint.Community, IneffectiveDate: time.Date(12000, 1, 1, 0, 0, 0, 0, time.UTC)},
		{Name: "n_zz_verif_meta_far_past", Description: "effective before year 0", Citation: "§y", Source: lint.Community, EffectiveDate: time.Date(-5, 1, 1, 0, 0, 0, 0, time.UTC)},
		{Name: "n_zz_verif_meta_both", Description: "window in non-UTC zones", Citation: "", Source: lint.RFC5280, EffectiveDate: time.Date(2020, 1, 1, 0, 0, 0, 0, time.FixedZone("x", 3600*14)), IneffectiveDate: time.Date(10000, 1, 1, 0, 0, 0, 0, time.FixedZone("y", -3600*12))},
		{Name: "n_zz_verif_meta_text", Description: "quotes \" backslash \\ <tag> & \u2028 and more", Citation: "line\nbreak\ttab", Source: lint.RFC6960},
	} {
		m := m
		switch i % 3 {
		case 0:
			lint.RegisterCertificateLint(&lint.CertificateLint{LintMetadata: m, Lint: func() lint.CertificateLintInterface { return mockCert{lint.Pass} }})
		case 1:
			lint.RegisterRevocationListLint(&lint.RevocationListLint{LintMetadata: m, Lint: func() lint.RevocationListLintInterface { return mockCRL{lint.Pass} }})
		default:
			lint.RegisterOcspResponseLint(&lint.OcspResponseLint{LintMetadata: m, Lint: func() lint.OcspResponseLintInterface { return mockOCSP{lint.Pass} }})
		}
	}
	g := lint.GlobalRegistry()
	c14WriteJSONOne(rep, "global+same-name-mocks", g)
	for _, o := range []lint.FilterOptions{{IncludeNames: []string{name}}, {IncludeSources: lint.SourceList{lint.RFC5280, lint.RFC6960}}, {ExcludeSources: lint.SourceList{lint.Community}}} {
		if r, err := g.Filter(o); err == nil {
			c14WriteJSONOne(rep, fmt.Sprintf("filtered%v+same-name-mocks", o.IncludeNames), r)
		} else {
			rep.Note("filter with same-name mocks: %v", err)
		}
	}
	rep.Inc("same_name_across_kinds_listings")
}

func replayC14(rp map[string]interface{}) (string, error) {
	if op, _ := rp["op"].(string); op != "" {
		return "", fmt.Errorf("op replay %s is re-run by the check itself", op)
	}
	st, err := stateFromReplay(rp)
	if err != nil {
		return "", err
	}
	rs, p := zl.Lint(st.Obj, lint.GlobalRegistry())
	if p != nil || rs == nil {
		return "", nil
	}
	if bad := c14RoundTrip(rs); len(bad) > 0 {
		return bad[0][0] + ": " + bad[0][1], nil
	}
	return "", nil
}
