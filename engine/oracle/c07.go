package oracle

import (
	"encoding/hex"
	"fmt"
	"regexp"
	"strings"

	"github.com/zmap/zlint/v3"
	"github.com/zmap/zlint/v3/lint"

	"verif/core"
	"verif/seeds"
	"verif/xstate"
	"verif/zl"
)

func init() {
	core.Checks["C07"] = checkC07
	core.Replayers["C07"] = replayC07
}

type c07Family struct {
	// pristine: the global registry as listed before the first Filter call of this process. What a filter
	// "selects" is computed from this list and the filter options (the set comprehension of C08), never
	// from the filtered registry's own listing — a Filter that damages listings would otherwise define
	// its own expectation.
	pristine []lintDesc
	selected map[string]map[string]bool // registry name + "|" + kind → selected lint names (from the model)
	singles  []NamedReg                 // one registry per lint
	groups   []NamedReg                 // per source, e_/w_/n_, halves
	compl    []NamedReg                 // complement of each source
}

func buildC07Family() (*c07Family, error) {
	g := lint.GlobalRegistry()
	f := &c07Family{pristine: snapshotRegistry(g)}
	names := g.Names()
	for _, n := range names {
		r, err := g.Filter(lint.FilterOptions{IncludeNames: []string{n}})
		if err != nil {
			return nil, err
		}
		f.singles = append(f.singles, NamedReg{"only:" + n, r, lint.FilterOptions{IncludeNames: []string{n}}})
	}
	for _, s := range sortedSources(g) {
		f.groups = append(f.groups, mustFilter("include:"+string(s), lint.FilterOptions{IncludeSources: lint.SourceList{s}}))
		f.compl = append(f.compl, mustFilter("exclude:"+string(s), lint.FilterOptions{ExcludeSources: lint.SourceList{s}}))
	}
	for _, p := range []string{"^e_", "^w_", "^n_"} {
		f.groups = append(f.groups, mustFilter("name:"+p, lint.FilterOptions{NameFilter: regexp.MustCompile(p)}))
	}
	h := len(names) / 2
	f.groups = append(f.groups, mustFilter("half:1", lint.FilterOptions{IncludeNames: names[:h]}))
	f.groups = append(f.groups, mustFilter("half:2", lint.FilterOptions{IncludeNames: names[h:]}))
	f.groups = append(f.groups, mustFilter("exclude-half:1", lint.FilterOptions{ExcludeNames: names[:h]}))
	return f, nil
}

// c07Compare: the filtered run against the full run (both on fresh parses).
func (f *c07Family) want(nr NamedReg, kind seeds.Kind) map[string]bool {
	k := nr.Name + "|" + kind.String()
	if w, ok := f.selected[k]; ok {
		return w
	}
	if f.selected == nil {
		f.selected = map[string]map[string]bool{}
	}
	want := map[string]bool{}
	sel, _ := refFilter(f.pristine, nr.Opts)
	for _, d := range sel {
		if d.Kind == kind.String() {
			want[d.Name] = true
		}
	}
	f.selected[k] = want
	return want
}

func c07Compare(full, part *zlint.ResultSet, want map[string]bool, regName string) [][2]string {
	var bad [][2]string
	for n, r := range part.Results {
		if !want[n] {
			bad = append(bad, [2]string{"C07|unselected_present", "result for unselected lint " + n + " under " + regName})
			continue
		}
		f := full.Results[n]
		if f == nil || r == nil {
			bad = append(bad, [2]string{"C07|" + n + "|missing_in_full", "selected lint " + n + " has no result in the full run"})
			continue
		}
		if f.Status != r.Status {
			bad = append(bad, [2]string{"C07|" + n + "|status", fmt.Sprintf("%s: %s with the full registry, %s under %s", n, f.Status, r.Status, regName)})
		} else if f.Details != r.Details && canonTokens(f.Details) != canonTokens(r.Details) {
			bad = append(bad, [2]string{"C07|" + n + "|details", fmt.Sprintf("%s: details %q with the full registry, %q under %s", n, f.Details, r.Details, regName)})
		}
	}
	for n := range want {
		if _, ok := part.Results[n]; !ok {
			bad = append(bad, [2]string{"C07|selected_missing", "no result for selected lint " + n + " under " + regName})
		}
	}
	if (part.NoticesPresent && !full.NoticesPresent) || (part.WarningsPresent && !full.WarningsPresent) || (part.ErrorsPresent && !full.ErrorsPresent) || (part.FatalsPresent && !full.FatalsPresent) {
		bad = append(bad, [2]string{"C07|flags_not_subset", "a presence flag is raised under " + regName + " but not by the full run"})
	}
	return bad
}

func c07State(st *xstate.State, fam *c07Family, withCompl bool, rep *core.Report) [][2]string {
	full, p := zl.Lint(st.Obj, lint.GlobalRegistry())
	if p != nil || full == nil {
		return nil
	}
	var bad [][2]string
	// the full run still has one result for every lint of the kind that was registered at start-up
	for _, d := range fam.pristine {
		if d.Kind == st.Seed.Kind.String() && full.Results[d.Name] == nil {
			bad = append(bad, [2]string{"C07|full_run_lost_lint", "the full registry no longer yields a result for " + d.Name + " after filtered registries were derived from it"})
			break
		}
	}
	run := func(nr NamedReg) {
		// fresh parse of the same bytes: nothing cached in the object can help
		o, err := zl.Parse(st.Seed.Kind, st.DER)
		if err != nil {
			return
		}
		part, p := zl.Lint(o, nr.Reg)
		if rep != nil {
			rep.Inc("filtered_runs")
			rep.Inc("validated")
		}
		if p != nil || part == nil {
			bad = append(bad, [2]string{"C07|panic_filtered_only", fmt.Sprintf("panic under %s but not with the full registry: %v", nr.Name, p)})
			return
		}
		bad = append(bad, c07Compare(full, part, fam.want(nr, st.Seed.Kind), nr.Name)...)
	}
	for _, nr := range fam.singles {
		run(nr)
	}
	for _, nr := range fam.groups {
		run(nr)
	}
	if withCompl {
		for _, nr := range fam.compl {
			run(nr)
		}
	}
	return bad
}

// c07StateGroups: the group registries only (per source, per prefix, halves).
func c07StateGroups(st *xstate.State, fam *c07Family, quick bool, rep *core.Report) [][2]string {
	full, p := zl.Lint(st.Obj, lint.GlobalRegistry())
	if p != nil || full == nil {
		return nil
	}
	var bad [][2]string
	for _, nr := range fam.groups {
		if quick && !strings.HasPrefix(nr.Name, "include:") && !strings.HasPrefix(nr.Name, "half:") {
			continue // quick: the per-source partition and the two halves of the name list
		}
		o, err := zl.Parse(st.Seed.Kind, st.DER)
		if err != nil {
			return nil
		}
		part, p := zl.Lint(o, nr.Reg)
		if rep != nil {
			rep.Inc("filtered_runs")
			rep.Inc("validated")
		}
		if p != nil || part == nil {
			bad = append(bad, [2]string{"C07|panic_filtered_only", fmt.Sprintf("panic under %s but not with the full registry: %v", nr.Name, p)})
			continue
		}
		bad = append(bad, c07Compare(full, part, fam.want(nr, st.Seed.Kind), nr.Name)...)
	}
	return bad
}

func checkC07(ctx *core.Ctx, rep *core.Report) {
	fam, err := buildC07Family()
	if err != nil {
		rep.InternalError("family: %v", err)
		return
	}
	rep.Add("g_registries", int64(len(fam.singles)+len(fam.groups)+len(fam.compl)))
	all := seeds.Load()
	nth := 96
	if !ctx.Quick() {
		nth = 6
	}
	sel := pickSeedsPlain(all, argInt(ctx, "nth", nth))
	xstate.Explore(ctx, rep, xstate.Options{Seeds: sel, Depth: 1, NoCompound: ctx.Quick()}, func(st *xstate.State) {
		for _, b := range c07State(st, fam, len(st.Path) == 0, rep) {
			rp := st.Replay()
			rep.Violate(b[0], b[1]+" [seed "+st.Seed.Name+" path "+strings.Join(st.Path, ",")+"]", rp)
		}
		rep.Sample(2, map[string]interface{}{"seed": st.Seed.Name, "path": st.Path})
	})
	// list-shape changes (delete / duplicate / swap / grow / duplicate-and-modify) of the (lint, status) cover of the corpus
	// under the group registries: which lints run before which differs between a filtered and the full run, so a lint that
	// edits the object (or a cache inside it) for the ones after it shows here
	cover := pickSeeds(all, 1<<30)
	quick := ctx.Quick()
	xstate.Explore(ctx, rep, xstate.Options{Seeds: cover, Depth: 1, Only: func(d string) bool {
		if quick { // quick: of the duplicate-and-modify edits only the string-level ones (names, URLs, addresses)
			return xstate.Structural(d) || (strings.Contains(d, ":dm") && strings.Contains(d, ":str:"))
		}
		return xstate.Structural(d) || strings.Contains(d, ":dm")
	}}, func(st *xstate.State) {
		if len(st.Path) == 0 {
			return
		}
		for _, b := range c07StateGroups(st, fam, quick, rep) {
			rep.Violate(b[0], b[1]+" [seed "+st.Seed.Name+" path "+strings.Join(st.Path, ",")+"]", st.Replay())
		}
	})
	c07ConfigHistories(ctx, rep, all)
	// every seed itself (k = 0) with the complement family as well
	rest := all
	xstate.Explore(ctx, rep, xstate.Options{Seeds: rest, Depth: 0}, func(st *xstate.State) {
		for _, b := range c07State(st, fam, true, rep) {
			rep.Violate(b[0], b[1]+" [seed "+st.Seed.Name+"]", st.Replay())
		}
	})
	// revocation lists over the entry-list product (common.go): every list of ≤2 (thorough 3) entries over serial × reasonCode,
	// in every order, each under every single-lint registry and the group / complement families
	maxLen := 2
	if !ctx.Quick() {
		maxLen = 3
	}
	n := crlEntryStates(ctx, all, maxLen, func(st *xstate.State) {
		rep.Inc("states")
		rep.Inc("transitions")
		for _, b := range c07State(st, fam, true, rep) {
			rep.Violate(b[0], b[1]+" [CRL template "+st.Seed.Name+" "+strings.Join(st.Path, ",")+"]", st.Replay())
		}
	})
	rep.Add("crl_entry_list_states", int64(n))
}

func replayC07(rp map[string]interface{}) (string, error) {
	st, err := stateFromReplay(rp)
	if err != nil {
		return "", err
	}
	fam, err := buildC07Family()
	if err != nil {
		return "", err
	}
	if bad := c07State(st, fam, true, nil); len(bad) > 0 {
		return bad[0][0] + ": " + bad[0][1], nil
	}
	return "", nil
}

// c07Configs: the empty configuration and two documents that give every field of every configurable lint
// (discovered at run time) a non-default value.
func c07Configs() []string {
	cls := discoverConfigurable()
	doc := func(pick func(vals []interface{}) interface{}) string {
		var b strings.Builder
		for _, cl := range cls {
			fmt.Fprintf(&b, "[%s]\n", cl.Name)
			for _, f := range cl.Fields {
				if vals := altValues(f); len(vals) > 0 {
					fmt.Fprintf(&b, "%s = %s\n", f.Name, tomlLit(pick(vals)))
				}
			}
			b.WriteString("\n")
		}
		return b.String()
	}
	return []string{doc(func(v []interface{}) interface{} { return v[0] }), "", doc(func(v []interface{}) interface{} { return v[len(v)-1] }), ""}
}

// c07ConfigHistories: filtered registries live long — a bulk pipeline derives one and lints with it for hours, changing
// its configuration in between. A small family of registries is derived ONCE per process and every corpus object is
// linted through each of them and through the full registry under the configuration sequence A, empty, B, empty (the
// same configuration on both sides each time). Whatever a filtered registry keeps from an earlier call — a pinned
// lint instance, a configuration applied once — shows as a difference to the full run at the next step.
func c07ConfigHistories(ctx *core.Ctx, rep *core.Report, all []seeds.Seed) {
	g := lint.GlobalRegistry()
	pristine := snapshotRegistry(g)
	var regs []NamedReg
	names := g.Names()
	seenSrc := map[lint.LintSource]bool{}
	for _, cl := range discoverConfigurable() {
		regs = append(regs, mustFilter("only:"+cl.Name, lint.FilterOptions{IncludeNames: []string{cl.Name}}))
		for _, d := range pristine {
			if d.Name == cl.Name && !seenSrc[d.Source] {
				seenSrc[d.Source] = true
				regs = append(regs, mustFilter("include:"+string(d.Source), lint.FilterOptions{IncludeSources: lint.SourceList{d.Source}}))
			}
		}
	}
	h := len(names) / 2
	regs = append(regs, mustFilter("half:1", lint.FilterOptions{IncludeNames: names[:h]}), mustFilter("half:2", lint.FilterOptions{IncludeNames: names[h:]}),
		mustFilter("name:^e_", lint.FilterOptions{NameFilter: regexp.MustCompile("^e_")}))
	var cfgs []lint.Configuration
	texts := c07Configs()
	for _, t := range texts {
		c, err := lint.NewConfigFromString(t)
		if err != nil {
			rep.InternalError("C07 configuration document does not load: %v\n%s", err, t)
			return
		}
		cfgs = append(cfgs, c)
	}
	defer func() {
		if empty, err := lint.NewConfigFromString(""); err == nil {
			g.SetConfiguration(empty)
		}
	}()
	want := map[string]map[string]bool{}
	for i := range all {
		if !ctx.Mine(uint64(i)) {
			continue
		}
		sd := &all[i]
		for ci, cfg := range cfgs {
			g.SetConfiguration(cfg)
			o, err := zl.Parse(sd.Kind, sd.DER)
			if err != nil {
				break
			}
			full, p := zl.Lint(o, g)
			if p != nil || full == nil {
				continue
			}
			for _, nr := range regs {
				nr.Reg.SetConfiguration(cfg)
				o2, _ := zl.Parse(sd.Kind, sd.DER)
				part, p := zl.Lint(o2, nr.Reg)
				rep.Inc("states")
				rep.Inc("transitions")
				rep.Inc("validated")
				rep.Inc("config_history_runs")
				if p != nil || part == nil {
					continue
				}
				k := nr.Name + "|" + sd.Kind.String()
				if want[k] == nil {
					w := map[string]bool{}
					sel, _ := refFilter(pristine, nr.Opts)
					for _, d := range sel {
						if d.Kind == sd.Kind.String() {
							w[d.Name] = true
						}
					}
					want[k] = w
				}
				for _, b := range c07Compare(full, part, want[k], nr.Name) {
					rep.Violate(b[0], fmt.Sprintf("%s [object %s, step %d of the configuration sequence (non-default A, empty, non-default B, empty) on a long-lived filtered registry; same configuration on both sides]", b[1], sd.Name, ci+1),
						map[string]interface{}{"op": "config_history", "seed": sd.Name, "kind": sd.Kind.String(), "der_hex": hex.EncodeToString(sd.DER), "registry": nr.Name, "step": ci + 1, "documents": texts})
				}
			}
		}
	}
}
