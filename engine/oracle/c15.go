package oracle

import (
	"bytes"
	"encoding/base64"
	"encoding/hex"
	"encoding/json"
	"encoding/pem"
	"fmt"
	"io"
	"os"
	"os/exec"
	"path/filepath"
	"regexp"
	"strconv"
	"strings"

	"github.com/zmap/zlint/v3"
	"github.com/zmap/zlint/v3/lint"

	"verif/core"
	"verif/seeds"
	"verif/zl"
)

func init() {
	core.Checks["C15"] = checkC15
}

type cliRun struct {
	args  []string
	stdin []byte
}

func (c cliRun) exec() (stdout []byte, code int, err error) {
	bin := os.Getenv("VERIF_ZLINT")
	cmd := exec.Command(bin, c.args...)
	var out, errb bytes.Buffer
	cmd.Stdout, cmd.Stderr = &out, &errb
	cmd.Stdin = bytes.NewReader(c.stdin)
	e := cmd.Run()
	if e != nil {
		if ee, ok := e.(*exec.ExitError); ok {
			return out.Bytes(), ee.ExitCode(), nil
		}
		return nil, 0, e
	}
	return out.Bytes(), 0, nil
}

// selection flags and the FilterOptions the library twin uses for them
type cliSel struct {
	desc  string
	flags []string
	opts  func() (lint.FilterOptions, bool) // ok=false ⇒ the CLI must fail
}

func splitTrim(s string) []string {
	var l []string
	for _, x := range strings.Split(s, ",") {
		l = append(l, strings.TrimSpace(x))
	}
	return l
}

func c15Selections() []cliSel {
	g := lint.GlobalRegistry()
	cert := g.CertificateLints().Lints()[3].Name
	cert2 := g.CertificateLints().Lints()[len(g.CertificateLints().Lints())/3].Name
	crl := ""
	if l := g.RevocationListLints().Lints(); len(l) > 0 {
		crl = l[0].Name
	}
	mk := func(desc string, flags []string, o lint.FilterOptions) cliSel {
		return cliSel{desc, flags, func() (lint.FilterOptions, bool) { return o, true }}
	}
	sl := func(s string) lint.SourceList {
		var l lint.SourceList
		_ = l.FromString(s)
		return l
	}
	out := []cliSel{
		mk("none", nil, lint.FilterOptions{}),
		mk("includeSources CABF_BR", []string{"-includeSources", "CABF_BR"}, lint.FilterOptions{IncludeSources: sl("CABF_BR")}),
		mk("excludeSources RFC5280,Community", []string{"-excludeSources", "RFC5280, Community"}, lint.FilterOptions{ExcludeSources: sl("RFC5280,Community")}),
		mk("include+exclude sources", []string{"-includeSources", "CABF_BR,RFC5280", "-excludeSources", "RFC5280"}, lint.FilterOptions{IncludeSources: sl("CABF_BR,RFC5280"), ExcludeSources: sl("RFC5280")}),
		mk("nameFilter ^e_", []string{"-nameFilter", "^e_"}, lint.FilterOptions{NameFilter: regexp.MustCompile("^e_")}),
		mk("nameFilter crl|san", []string{"-nameFilter", "crl|san"}, lint.FilterOptions{NameFilter: regexp.MustCompile("crl|san")}),
		mk("includeNames two", []string{"-includeNames", cert + ", " + cert2}, lint.FilterOptions{IncludeNames: splitTrim(cert + ", " + cert2)}),
		mk("excludeNames padded", []string{"-excludeNames", " " + cert + " "}, lint.FilterOptions{ExcludeNames: splitTrim(" " + cert + " ")}),
		mk("excludeNames + includeSources", []string{"-excludeNames", cert2, "-includeSources", "CABF_BR,RFC5280"}, lint.FilterOptions{ExcludeNames: []string{cert2}, IncludeSources: sl("CABF_BR,RFC5280")}),
	}
	if crl != "" {
		out = append(out, mk("includeNames cert+crl", []string{"-includeNames", cert + "," + crl}, lint.FilterOptions{IncludeNames: []string{cert, crl}}))
	}
	return out
}

func c15FailingSelections() [][]string {
	return [][]string{
		{"-includeNames", "e_no_such_lint"}, {"-excludeNames", "e_no_such_lint"}, {"-includeNames", "e_basic_constraints_not_critical,,"},
		{"-includeSources", "NoSuchSource"}, {"-excludeSources", "CABF_BR,NoSuchSource"}, {"-profile", "no_such_profile"},
		{"-nameFilter", "("}, {"-nameFilter", "^e_", "-includeNames", "e_basic_constraints_not_critical"}, {"-format", "xml"},
		{"-config", "/nonexistent/zlint.toml"},
	}
}

// expected library results for an object under options/config
func c15Expect(o *zl.Obj, fo lint.FilterOptions, cfgText string) (*zlint.ResultSet, error) {
	reg, err := lint.GlobalRegistry().Filter(fo)
	if err != nil {
		return nil, err
	}
	if fo.Empty() {
		reg = fullCopy()
	}
	if cfgText != "" {
		cfg, err := lint.NewConfigFromString(cfgText)
		if err != nil {
			return nil, err
		}
		reg.SetConfiguration(cfg)
	}
	rs, p := zl.Lint(o, reg)
	if p != nil {
		return nil, fmt.Errorf("library panicked: %v", p)
	}
	return rs, nil
}

func compareResults(want *zlint.ResultSet, got map[string]*lint.LintResult) string {
	if len(got) != len(want.Results) {
		return fmt.Sprintf("CLI printed %d results, the library computes %d", len(got), len(want.Results))
	}
	for n, w := range want.Results {
		g := got[n]
		if g == nil {
			return "CLI output lacks " + n
		}
		if g.Status != w.Status {
			return fmt.Sprintf("%s: CLI %s, library %s", n, g.Status, w.Status)
		}
		if canonTokens(g.Details) != canonTokens(refJSONString(w.Details)) {
			return fmt.Sprintf("%s: CLI details %q, library %q", n, g.Details, w.Details)
		}
	}
	return ""
}

var summaryRow = regexp.MustCompile(`^\|\s*(\S+)\s*\|\s*(\d+)\s*\|`)

func parseSummary(out []byte) map[string]int {
	m := map[string]int{}
	for _, l := range strings.Split(string(out), "\n") {
		if x := summaryRow.FindStringSubmatch(l); x != nil {
			n, _ := strconv.Atoi(x[2])
			m[x[1]] = n
		}
	}
	return m
}

// parseSummaries splits stdout into its summary tables: a level that is already in the current table starts the next one.
func parseSummaries(out []byte) []map[string]int {
	var tables []map[string]int
	var cur map[string]int
	for _, l := range strings.Split(string(out), "\n") {
		x := summaryRow.FindStringSubmatch(l)
		if x == nil {
			continue
		}
		if _, isLevel := map[string]bool{"info": true, "warn": true, "error": true, "fatal": true}[x[1]]; !isLevel {
			continue
		}
		if cur == nil {
			cur = map[string]int{}
		} else if _, dup := cur[x[1]]; dup {
			tables = append(tables, cur)
			cur = map[string]int{}
		}
		n, _ := strconv.Atoi(x[2])
		cur[x[1]] = n
	}
	if cur != nil {
		tables = append(tables, cur)
	}
	return tables
}

func checkC15(ctx *core.Ctx, rep *core.Report) {
	if os.Getenv("VERIF_ZLINT") == "" {
		rep.InternalError("VERIF_ZLINT not set")
		return
	}
	tmp, err := os.MkdirTemp("", "verif-c15-")
	if err != nil {
		rep.InternalError("%v", err)
		return
	}
	defer os.RemoveAll(tmp)
	all := seeds.Load()
	step := 24
	if !ctx.Quick() {
		step = 3
	}
	var objs []seeds.Seed
	ci := 0
	for _, s := range all {
		switch s.Kind {
		case seeds.Cert:
			if ci%step == 0 {
				objs = append(objs, s)
			}
			ci++
		case seeds.CRL:
			if ci%2 == 0 || !ctx.Quick() {
				objs = append(objs, s)
			}
		}
	}
	// two own templates
	objs = append(objs, seeds.Seed{Name: "template_tls_leaf", Kind: seeds.Cert, DER: tlsLeafSpec(date(2024, 3, 1), date(2024, 9, 1)).Build()})
	sels := c15Selections()
	defCfg, _ := lint.GlobalRegistry().DefaultConfiguration()
	cfgPath := filepath.Join(tmp, "default.toml")
	_ = os.WriteFile(cfgPath, defCfg, 0o644)
	// a non-default configuration: every option of every configurable lint (found by reflection) set to its first
	// alternative value — and, for every configurable lint, a corpus object whose verdict CHANGES under it, so that a
	// configuration the tool loads but does not hand to the registry it lints with cannot go unnoticed
	cfg2 := ""
	witness := map[string]bool{}
	for _, cl := range discoverConfigurable() {
		sec := ""
		for _, f := range cl.Fields {
			if av := altValues(f); len(av) > 0 {
				sec += fmt.Sprintf("%s = %s\n", f.Name, tomlLit(av[0]))
			}
		}
		if sec == "" {
			continue
		}
		cfg2 += "[" + cl.Name + "]\n" + sec + "\n"
	}
	if c2, err := lint.NewConfigFromString(cfg2); err == nil {
		for _, cl := range discoverConfigurable() {
			if cl.Kind == seeds.OCSP {
				continue
			}
			r0, e0 := lint.GlobalRegistry().Filter(lint.FilterOptions{IncludeNames: []string{cl.Name}})
			r2, e2 := lint.GlobalRegistry().Filter(lint.FilterOptions{IncludeNames: []string{cl.Name}})
			if e0 != nil || e2 != nil {
				continue
			}
			r2.SetConfiguration(c2)
			found := false
			for i := range all {
				if all[i].Kind != cl.Kind {
					continue
				}
				o, err := zl.Parse(all[i].Kind, all[i].DER)
				if err != nil {
					continue
				}
				a, pa := zl.Lint(o, r0)
				b, pb := zl.Lint(o, r2)
				if pa != nil || pb != nil || a == nil || b == nil || a.Results[cl.Name] == nil || b.Results[cl.Name] == nil {
					continue
				}
				if a.Results[cl.Name].Status != b.Results[cl.Name].Status {
					dup := false
					for _, x := range objs {
						if x.Name == all[i].Name {
							dup = true
						}
					}
					if !dup {
						objs = append(objs, all[i])
					}
					witness[all[i].Name] = true
					found = true
					break
				}
			}
			if !found {
				rep.Hole("no corpus object changes the verdict of configurable lint %s under the non-default configuration", cl.Name)
			}
		}
	} else {
		rep.InternalError("generated non-default configuration does not parse: %v", err)
	}
	rep.Add("g_configuration_sensitive_objects", int64(len(witness)))
	cfg2Path := filepath.Join(tmp, "nondefault.toml")
	_ = os.WriteFile(cfg2Path, []byte(cfg2), 0o644)

	write := func(name string, b []byte) string {
		p := filepath.Join(tmp, name)
		_ = os.WriteFile(p, b, 0o644)
		return p
	}
	encode := func(s *seeds.Seed, enc string) []byte {
		switch enc {
		case "pem":
			t := "CERTIFICATE"
			if s.Kind == seeds.CRL {
				t = "X509 CRL"
			}
			return pem.EncodeToMemory(&pem.Block{Type: t, Bytes: s.DER})
		case "base64":
			return []byte(base64.StdEncoding.EncodeToString(s.DER) + "\n")
		}
		return s.DER
	}
	idx := uint64(0)
	v := func(key, what string, r cliRun, extra map[string]interface{}) {
		art := map[string]interface{}{"op": "cli", "args": r.args, "stdin_hex": hex.EncodeToString(r.stdin)}
		for k, x := range extra {
			art[k] = x
		}
		rep.Violate("C15|"+key, what+" [zlint "+strings.Join(r.args, " ")+"]", art)
	}
	// ---- single-input product: object × encoding × input mode × selection × config ------------
	for oi := range objs {
		s := &objs[oi]
		o, err := zl.Parse(s.Kind, s.DER)
		if err != nil {
			continue
		}
		encs := []string{"pem", "der", "base64"}
		if s.Kind == seeds.CRL {
			encs = []string{"pem"}
		}
		for si, sel := range sels {
			for ci, cfg := range []struct{ flag, text string }{{"", ""}, {cfgPath, string(defCfg)}, {cfg2Path, cfg2}} {
				if ci > 0 && (si+oi)%3 != 0 && !(ci == 2 && witness[s.Name]) {
					continue
				}
				fo, _ := sel.opts()
				want, err := c15Expect(o, fo, cfg.text)
				if err != nil {
					rep.InternalError("library twin for %s: %v", sel.desc, err)
					continue
				}
				for _, enc := range encs {
					data := encode(s, enc)
					modes := []string{"suffix", "format", "stdin", "dash"}
					if enc == "base64" {
						modes = []string{"format", "stdin"}
					}
					for mi, mode := range modes {
						idx++
						if !ctx.Mine(idx) {
							continue
						}
						if ctx.Quick() && (int(idx)+mi)%2 == 1 && si > 0 && !(ci == 2 && witness[s.Name] && mi == 0) {
							continue // quick: every second (selection, mode) combination beyond the unfiltered run
						}
						var r cliRun
						r.args = append(r.args, sel.flags...)
						if cfg.flag != "" {
							r.args = append(r.args, "-config", cfg.flag)
						}
						switch mode {
						case "suffix":
							r.args = append(r.args, write(fmt.Sprintf("o%d.%s", oi, enc), data))
						case "format":
							r.args = append(r.args, "-format", enc, write(fmt.Sprintf("o%d_%s.bin", oi, enc), data))
						case "stdin":
							r.args = append(r.args, "-format", enc)
							r.stdin = data
						case "dash":
							r.args = append(r.args, "-format", enc, "-")
							r.stdin = data
						}
						out, code, err := r.exec()
						rep.Inc("states")
						rep.Inc("transitions")
						rep.Inc("cli_runs")
						if err != nil {
							rep.InternalError("exec: %v", err)
							continue
						}
						rep.Inc("validated")
						if code != 0 {
							v("exit_nonzero_on_good_input", fmt.Sprintf("exit %d for parseable %s %s given as %s/%s", code, s.Kind, s.Name, enc, mode), r, nil)
							continue
						}
						dec := json.NewDecoder(bytes.NewReader(out))
						var got map[string]*lint.LintResult
						if err := dec.Decode(&got); err != nil {
							v("stdout_not_json", "stdout does not decode: "+err.Error(), r, nil)
							continue
						}
						if d := compareResults(want, got); d != "" {
							v("results_differ", d+fmt.Sprintf(" (%s %s as %s/%s, selection %s, config %q)", s.Kind, s.Name, enc, mode, sel.desc, cfg.flag), r, nil)
						}
						var extra map[string]*lint.LintResult
						if err := dec.Decode(&extra); err != io.EOF {
							v("extra_output", "more than one object on stdout for one input", r, nil)
						}
						rep.Sample(3, map[string]interface{}{"args": r.args, "object": s.Name, "encoding": enc, "mode": mode})
					}
				}
			}
		}
		// output modes on the unfiltered run: pretty, summary, longSummary
		idx++
		if !ctx.Mine(idx) {
			continue
		}
		want, err := c15Expect(o, lint.FilterOptions{}, "")
		if err != nil {
			continue
		}
		p := write(fmt.Sprintf("o%d.pem", oi), encode(s, "pem"))
		counts := map[string]int{"info": 0, "warn": 0, "error": 0, "fatal": 0}
		for _, r := range want.Results {
			if _, ok := counts[r.Status.String()]; ok {
				counts[r.Status.String()]++
			}
		}
		for _, om := range [][]string{{"-pretty"}, {"-summary"}, {"-longSummary"}, {"-pretty", "-summary"}} {
			r := cliRun{args: append(append([]string{}, om...), p)}
			out, code, err := r.exec()
			rep.Inc("states")
			rep.Inc("cli_runs")
			if err != nil || code != 0 {
				v("exit_nonzero_on_good_input", fmt.Sprintf("exit %d with %v", code, om), r, nil)
				continue
			}
			rep.Inc("validated")
			if om[0] == "-pretty" {
				dec := json.NewDecoder(bytes.NewReader(out))
				var got map[string]*lint.LintResult
				if err := dec.Decode(&got); err != nil {
					v("stdout_not_json", "-pretty output does not decode: "+err.Error(), r, nil)
				} else if d := compareResults(want, got); d != "" {
					v("results_differ", d+" (-pretty)", r, nil)
				}
			}
			if om[len(om)-1] == "-summary" || om[0] == "-longSummary" {
				got := parseSummary(out)
				for lvl, n := range counts {
					if g, ok := got[lvl]; !ok || g != n {
						v("summary_counts", fmt.Sprintf("summary says %s=%d (present %v), the results contain %d [%s]", lvl, g, ok, n, s.Name), r, nil)
					}
				}
				if om[0] == "-longSummary" {
					for n, res := range want.Results {
						if res.Status > lint.Pass && !bytes.Contains(out, []byte(n)) {
							// long names are cut to the column width: compare on the visible prefix
							if len(n) > 40 && bytes.Contains(out, []byte(n[:40])) {
								continue
							}
							v("long_summary_missing_lint", "the long summary does not list "+n+" ("+res.Status.String()+")", r, nil)
						}
					}
				}
			}
		}
	}
	// ---- every source the registry lists, as -includeSources and as -excludeSources, against the library ----------
	{
		tmplDER := tlsLeafSpec(date(2024, 3, 1), date(2024, 9, 1)).Build()
		tp := write("sources_probe.pem", pem.EncodeToMemory(&pem.Block{Type: "CERTIFICATE", Bytes: tmplDER}))
		if o, err := zl.Parse(seeds.Cert, tmplDER); err == nil {
			for _, src := range sortedSources(lint.GlobalRegistry()) { // (Sources() is in map order: every worker must enumerate alike)
				for _, flag := range []string{"-includeSources", "-excludeSources"} {
					idx++
					if !ctx.Mine(idx) {
						continue
					}
					fo := lint.FilterOptions{IncludeSources: lint.SourceList{src}}
					if flag == "-excludeSources" {
						fo = lint.FilterOptions{ExcludeSources: lint.SourceList{src}}
					}
					want, err := c15Expect(o, fo, "")
					if err != nil {
						rep.Inc("source_selection_library_refused")
						rep.Note("library refuses %s %s: %v", flag, src, err)
						continue // the library itself refuses: C13's business
					}
					r := cliRun{args: []string{flag, string(src), tp}}
					out, code, err := r.exec()
					rep.Inc("states")
					rep.Inc("transitions")
					rep.Inc("cli_runs")
					rep.Inc("source_selection_runs")
					if err != nil {
						rep.InternalError("exec: %v", err)
						continue
					}
					rep.Inc("validated")
					if code != 0 {
						v("exit_nonzero_on_good_input", fmt.Sprintf("exit %d for a parseable certificate with %s %s, a selection the library accepts", code, flag, src), r, nil)
						continue
					}
					var got map[string]*lint.LintResult
					if err := json.NewDecoder(bytes.NewReader(out)).Decode(&got); err != nil {
						v("stdout_not_json", "stdout does not decode: "+err.Error(), r, nil)
						continue
					}
					if d := compareResults(want, got); d != "" {
						v("results_differ", d+fmt.Sprintf(" (%s %s)", flag, src), r, nil)
					}
				}
			}
		}
	}

	// ---- file-sequence product: every sequence of ≤ 3 files over the file shapes (content encoding ×
	// telling / non-telling suffix) × every -format value. Each file is judged by its own suffix, else
	// by -format; nothing carries over from one file to the next. The run prints one object per
	// decodable file up to the first undecodable one and then fails.
	{
		var cs []*seeds.Seed
		for i := range objs {
			if objs[i].Kind == seeds.Cert && len(cs) < 3 {
				cs = append(cs, &objs[i])
			}
		}
		type shape struct{ enc, ext string }
		shapes := []shape{{"pem", ".pem"}, {"der", ".der"}, {"pem", ".txt"}, {"der", ".bin"}, {"base64", ".b64"}}
		formats := []string{"", "pem", "der", "base64"}
		maxLen := 3
		if len(cs) == 3 {
			var sl lint.SourceList
			_ = sl.FromString("RFC5280")
			var wants []*zlint.ResultSet
			paths := map[string]string{}
			for k, sd := range cs {
				o, _ := zl.Parse(sd.Kind, sd.DER)
				w, _ := c15Expect(o, lint.FilterOptions{IncludeSources: sl}, "")
				wants = append(wants, w)
				for _, sh := range shapes {
					paths[fmt.Sprintf("%d%s%s", k, sh.enc, sh.ext)] = write(fmt.Sprintf("seq%d_%s%s", k, sh.enc, sh.ext), encode(sd, sh.enc))
				}
			}
			var rec func(seq []int)
			rec = func(seq []int) {
				if len(seq) > 0 {
					for _, f := range formats {
						idx++
						if !ctx.Mine(idx) {
							continue
						}
						var r cliRun
						r.args = []string{"-includeSources", "RFC5280"}
						if f != "" {
							r.args = append(r.args, "-format", f)
						}
						firstBad := -1
						for k, si := range seq {
							sh := shapes[si]
							r.args = append(r.args, paths[fmt.Sprintf("%d%s%s", k, sh.enc, sh.ext)])
							eff := f
							if eff == "" {
								eff = "pem"
							}
							if sh.ext == ".pem" || sh.ext == ".der" {
								eff = sh.ext[1:]
							}
							if eff != sh.enc && firstBad < 0 {
								firstBad = k
							}
						}
						out, code, err := r.exec()
						rep.Inc("states")
						rep.Inc("transitions")
						rep.Inc("cli_runs")
						rep.Inc("file_sequences")
						if err != nil {
							rep.InternalError("exec: %v", err)
							continue
						}
						rep.Inc("validated")
						nGood := len(seq)
						if firstBad >= 0 {
							nGood = firstBad
						}
						if firstBad < 0 && code != 0 {
							v("exit_nonzero_on_good_input", fmt.Sprintf("exit %d although every file decodes under its own suffix / -format", code), r, nil)
						}
						if firstBad >= 0 && code == 0 {
							v("exit_zero_on_undecodable_input", fmt.Sprintf("exit 0 although file %d cannot be decoded in the format that applies to it", firstBad+1), r, nil)
						}
						dec := json.NewDecoder(bytes.NewReader(out))
						k := 0
						for ; ; k++ {
							var got map[string]*lint.LintResult
							if err := dec.Decode(&got); err != nil {
								break
							}
							if k < nGood && wants[k] != nil {
								if d := compareResults(wants[k], got); d != "" {
									v("multi_file_order", fmt.Sprintf("object %d does not belong to input %d: %s", k+1, k+1, d), r, nil)
								}
							}
						}
						if k < nGood {
							v("multi_file_missing_object", fmt.Sprintf("%d result objects for %d decodable files (each file is judged by its own suffix, else by -format)", k, nGood), r, nil)
						}
						if k > nGood {
							v("result_for_undecodable_input", fmt.Sprintf("%d result objects although only %d files precede the first undecodable one", k, nGood), r, nil)
						}
					}
				}
				if len(seq) == maxLen {
					return
				}
				for i := range shapes {
					rec(append(append([]int{}, seq...), i))
				}
			}
			rec(nil)
		} else {
			rep.Hole("fewer than three certificate objects for the file-sequence product")
		}
	}
	// ---- environment answers of the input side: boundary bytes, standard input in pieces (c15io.go) ----
	c15InputAnswers(ctx, rep, tmp, objs)
	if ctx.Shard != 0 {
		return
	}
	// ---- several files per invocation: one object per input, in order ---------------------------
	var certObjs []*seeds.Seed
	for i := range objs {
		if objs[i].Kind == seeds.Cert && len(certObjs) < 6 {
			certObjs = append(certObjs, &objs[i])
		}
	}
	var crlObj *seeds.Seed
	for i := range objs {
		if objs[i].Kind == seeds.CRL && crlObj == nil {
			crlObj = &objs[i]
		}
	}
	var groups [][]*seeds.Seed
	for i := 0; i+2 < len(certObjs); i++ {
		groups = append(groups, []*seeds.Seed{certObjs[i], certObjs[i+1]}, []*seeds.Seed{certObjs[i+2], certObjs[i], certObjs[i+1]})
		if crlObj != nil {
			groups = append(groups, []*seeds.Seed{certObjs[i], crlObj, certObjs[i+1]})
		}
	}
	for gi, gr := range groups {
		var r cliRun
		r.args = []string{"-includeSources", "CABF_BR,RFC5280,Community"}
		var wants []*zlint.ResultSet
		for k, s := range gr {
			ext := []string{"pem", "der"}[(gi+k)%2]
			if s.Kind == seeds.CRL {
				ext = "pem"
			}
			r.args = append(r.args, write(fmt.Sprintf("g%d_%d.%s", gi, k, ext), encode(s, ext)))
			o, _ := zl.Parse(s.Kind, s.DER)
			var sl lint.SourceList
			_ = sl.FromString("CABF_BR,RFC5280,Community")
			w, _ := c15Expect(o, lint.FilterOptions{IncludeSources: sl}, "")
			wants = append(wants, w)
		}
		out, code, err := r.exec()
		rep.Inc("states")
		rep.Inc("cli_runs")
		if err != nil || code != 0 {
			v("exit_nonzero_on_good_input", fmt.Sprintf("exit %d for %d good files", code, len(gr)), r, nil)
			continue
		}
		rep.Inc("validated")
		dec := json.NewDecoder(bytes.NewReader(out))
		for k := range gr {
			var got map[string]*lint.LintResult
			if err := dec.Decode(&got); err != nil {
				v("multi_file_missing_object", fmt.Sprintf("object %d of %d missing on stdout: %v", k+1, len(gr), err), r, nil)
				break
			}
			if wants[k] != nil {
				if d := compareResults(wants[k], got); d != "" {
					v("multi_file_order", fmt.Sprintf("object %d does not belong to input %d (%s): %s", k+1, k+1, gr[k].Name, d), r, nil)
				}
			}
		}
	}
	// ---- several files per invocation in the tabular modes: one table (two with both flags) per input, in order,
	// each with the counts of ITS input — a table assembled from state that outlives one input shows up here
	for gi, gr := range groups {
		for _, om := range [][]string{{"-summary"}, {"-longSummary"}, {"-summary", "-longSummary"}} {
			var r cliRun
			r.args = append([]string{}, om...)
			var wantCounts []map[string]int
			for k, s := range gr {
				r.args = append(r.args, write(fmt.Sprintf("gs%d_%d.pem", gi, k), encode(s, "pem")))
				o, _ := zl.Parse(s.Kind, s.DER)
				w, _ := c15Expect(o, lint.FilterOptions{}, "")
				c := map[string]int{"info": 0, "warn": 0, "error": 0, "fatal": 0}
				if w != nil {
					for _, res := range w.Results {
						if _, ok := c[res.Status.String()]; ok {
							c[res.Status.String()]++
						}
					}
				}
				for range om {
					wantCounts = append(wantCounts, c)
				}
			}
			out, code, err := r.exec()
			rep.Inc("states")
			rep.Inc("cli_runs")
			rep.Inc("multi_file_summary_runs")
			if err != nil || code != 0 {
				v("exit_nonzero_on_good_input", fmt.Sprintf("exit %d for %d good files with %v", code, len(gr), om), r, nil)
				continue
			}
			rep.Inc("validated")
			tables := parseSummaries(out)
			if len(tables) != len(wantCounts) {
				v("multi_file_summary_tables", fmt.Sprintf("%d summary tables on stdout for %d inputs with %v (expected %d)", len(tables), len(gr), om, len(wantCounts)), r, nil)
				continue
			}
			for ti, got := range tables {
				for lvl, n := range wantCounts[ti] {
					if g, ok := got[lvl]; !ok || g != n {
						v("multi_file_summary_counts", fmt.Sprintf("table %d of %d (input %s, flags %v) says %s=%d (present %v), the library's results for that input contain %d", ti+1, len(tables), gr[ti/len(om)].Name, om, lvl, g, ok, n), r, nil)
					}
				}
			}
		}
	}
	// ---- failure space ----------------------------------------------------------------------------
	good := certObjs[0]
	goodPEM := write("good.pem", encode(good, "pem"))
	noObject := func(r cliRun, what string) {
		out, code, err := r.exec()
		rep.Inc("states")
		rep.Inc("cli_runs")
		rep.Inc("failure_runs")
		if err != nil {
			rep.InternalError("exec: %v", err)
			return
		}
		rep.Inc("validated")
		if code == 0 {
			v("exit_zero_on_bad_input", "exit status 0 for "+what, r, nil)
		}
		var got map[string]*lint.LintResult
		if json.NewDecoder(bytes.NewReader(out)).Decode(&got) == nil && got != nil {
			v("result_printed_on_bad_input", "a result object is printed for "+what, r, nil)
		}
	}
	// every strict prefix of one DER certificate
	stepP := 1
	if ctx.Quick() {
		stepP = 7
	}
	for n := 0; n < len(good.DER); n += stepP {
		noObject(cliRun{args: []string{"-format", "der"}, stdin: good.DER[:n]}, fmt.Sprintf("a DER certificate cut to %d of %d bytes", n, len(good.DER)))
	}
	noObject(cliRun{args: []string{"-format", "der"}, stdin: append(append([]byte{}, good.DER[:len(good.DER)-1]...), good.DER[len(good.DER)-1]^0xff, 0)}, "a DER certificate with a trailing byte")
	noObject(cliRun{args: []string{"-format", "pem"}, stdin: pem.EncodeToMemory(&pem.Block{Type: "PRIVATE KEY", Bytes: good.DER})}, "PEM of a foreign type")
	noObject(cliRun{args: []string{"-format", "pem"}, stdin: []byte("hello world\n")}, "garbage given as PEM")
	noObject(cliRun{args: []string{"-format", "pem"}, stdin: good.DER}, "DER given as PEM")
	noObject(cliRun{args: []string{"-format", "base64"}, stdin: []byte("!!!not base64!!!")}, "bad base64")
	noObject(cliRun{args: []string{"-format", "base64"}, stdin: []byte(base64.StdEncoding.EncodeToString(good.DER[:len(good.DER)/2]))}, "base64 of half a certificate")
	noObject(cliRun{args: []string{"-format", "der"}, stdin: []byte{}}, "empty input")
	if crlObj != nil {
		noObject(cliRun{args: []string{"-format", "der"}, stdin: crlObj.DER}, "a CRL given as DER")
		noObject(cliRun{args: []string{"-format", "pem"}, stdin: pem.EncodeToMemory(&pem.Block{Type: "X509 CRL", Bytes: good.DER})}, "a certificate inside CRL armor")
		noObject(cliRun{args: []string{"-format", "pem"}, stdin: pem.EncodeToMemory(&pem.Block{Type: "CERTIFICATE", Bytes: crlObj.DER})}, "a CRL inside certificate armor")
	}
	noObject(cliRun{args: []string{filepath.Join(tmp, "does-not-exist.pem")}}, "an unreadable file")
	goodNoSuffix := write("good_input", encode(good, "pem"))
	for _, f := range c15FailingSelections() {
		// (a telling file suffix overrides -format, so the input has none)
		noObject(cliRun{args: append(append([]string{}, f...), goodNoSuffix)}, "selector "+strings.Join(f, " "))
	}
	// a bad file after a good one: exactly one object, non-zero exit
	bad := write("bad.der", good.DER[:len(good.DER)/2])
	r := cliRun{args: []string{goodPEM, bad}}
	out, code, _ := r.exec()
	rep.Inc("cli_runs")
	rep.Inc("validated")
	dec := json.NewDecoder(bytes.NewReader(out))
	n := 0
	for {
		var got map[string]*lint.LintResult
		if dec.Decode(&got) != nil {
			break
		}
		n++
	}
	if code == 0 || n != 1 {
		v("bad_file_after_good", fmt.Sprintf("good file then undecodable file: exit %d with %d result objects (expected non-zero and exactly 1)", code, n), r, nil)
	}
}
