module verif

go 1.23.0

require (
	github.com/pelletier/go-toml v1.9.5
	github.com/zmap/zcrypto v0.0.0-20250129210703-03c45d0bae98
	github.com/zmap/zlint/v3 v3.0.0
	golang.org/x/crypto v0.36.0
)

require (
	github.com/weppos/publicsuffix-go v0.40.3-0.20250127173806-e489a31678ca // indirect
	golang.org/x/net v0.38.0 // indirect
	golang.org/x/text v0.23.0 // indirect
)

replace github.com/zmap/zlint/v3 => /repo/v3
