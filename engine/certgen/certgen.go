// Package certgen builds certificates at DER level from a small spec, so that
// product spaces (SAN lists, keys, validity instants, scopes) can be
// enumerated exactly. Signatures are arbitrary bytes: zlint never verifies
// them for non-self-issued certificates (that is property C09).
package certgen

import (
	"math/big"
	"time"

	"verif/der"
)

var (
	OIDSha256WithRSA = []int{1, 2, 840, 113549, 1, 1, 11}
	OIDRSAEncryption = []int{1, 2, 840, 113549, 1, 1, 1}
	OIDECDSASHA256   = []int{1, 2, 840, 10045, 4, 3, 2}
	OIDECPublicKey   = []int{1, 2, 840, 10045, 2, 1}
	OIDP256          = []int{1, 2, 840, 10045, 3, 1, 7}
	OIDDSA           = []int{1, 2, 840, 10040, 4, 1}

	OIDCN       = []int{2, 5, 4, 3}
	OIDSurname  = []int{2, 5, 4, 4}
	OIDSerial   = []int{2, 5, 4, 5}
	OIDC        = []int{2, 5, 4, 6}
	OIDL        = []int{2, 5, 4, 7}
	OIDST       = []int{2, 5, 4, 8}
	OIDStreet   = []int{2, 5, 4, 9}
	OIDO        = []int{2, 5, 4, 10}
	OIDOU       = []int{2, 5, 4, 11}
	OIDGiven    = []int{2, 5, 4, 42}
	OIDPostal   = []int{2, 5, 4, 17}
	OIDEmail    = []int{1, 2, 840, 113549, 1, 9, 1}
	OIDOrgID    = []int{2, 5, 4, 97}

	OIDExtSKI    = []int{2, 5, 29, 14}
	OIDExtKU     = []int{2, 5, 29, 15}
	OIDExtSAN    = []int{2, 5, 29, 17}
	OIDExtIAN    = []int{2, 5, 29, 18}
	OIDExtBC     = []int{2, 5, 29, 19}
	OIDExtNC     = []int{2, 5, 29, 30}
	OIDExtCRLDP  = []int{2, 5, 29, 31}
	OIDExtCP     = []int{2, 5, 29, 32}
	OIDExtAKI    = []int{2, 5, 29, 35}
	OIDExtEKU    = []int{2, 5, 29, 37}
	OIDExtAIA    = []int{1, 3, 6, 1, 5, 5, 7, 1, 1}

	EKUServerAuth  = []int{1, 3, 6, 1, 5, 5, 7, 3, 1}
	EKUClientAuth  = []int{1, 3, 6, 1, 5, 5, 7, 3, 2}
	EKUCodeSigning = []int{1, 3, 6, 1, 5, 5, 7, 3, 3}
	EKUEmail       = []int{1, 3, 6, 1, 5, 5, 7, 3, 4}
	EKUTimeStamp   = []int{1, 3, 6, 1, 5, 5, 7, 3, 8}
	EKUOCSP        = []int{1, 3, 6, 1, 5, 5, 7, 3, 9}
	EKUAny         = []int{2, 5, 29, 37, 0}

	PolDV  = []int{2, 23, 140, 1, 2, 1}
	PolOV  = []int{2, 23, 140, 1, 2, 2}
	PolIV  = []int{2, 23, 140, 1, 2, 3}
	PolEV  = []int{2, 23, 140, 1, 1}
	PolCS  = []int{2, 23, 140, 1, 4, 1}
	PolEVCS = []int{2, 23, 140, 1, 3}
	PolAny = []int{2, 5, 29, 32, 0}

	AIAOCSP     = []int{1, 3, 6, 1, 5, 5, 7, 48, 1}
	AIACAIssuer = []int{1, 3, 6, 1, 5, 5, 7, 48, 2}
)

// ATV is one AttributeTypeAndValue; Tag is the ASN.1 string tag (12 UTF8, 19 Printable, 22 IA5 …).
type ATV struct {
	OID []int
	Tag int
	Val string
}

// Name builds an RDNSequence with one ATV per RDN.
func Name(atvs ...ATV) *der.Node {
	n := der.Seq()
	for _, a := range atvs {
		n.Children = append(n.Children, der.Set(der.Seq(der.OID(a.OID...), der.Str(a.Tag, a.Val))))
	}
	return n
}

// NameRDNs builds an RDNSequence from explicit RDNs (multi-valued possible).
func NameRDNs(rdns ...[]ATV) *der.Node {
	n := der.Seq()
	for _, r := range rdns {
		s := der.Set()
		for _, a := range r {
			s.Children = append(s.Children, der.Seq(der.OID(a.OID...), der.Str(a.Tag, a.Val)))
		}
		n.Children = append(n.Children, s)
	}
	return n
}

// Time encodes per RFC 5280 (UTCTime through 2049, GeneralizedTime after).
func Time(t time.Time) *der.Node {
	t = t.UTC()
	if t.Year() >= 1950 && t.Year() < 2050 {
		return der.Str(23, t.Format("060102150405Z"))
	}
	return der.Str(24, t.Format("20060102150405Z"))
}

// AlgID builds AlgorithmIdentifier{oid, NULL}.
func AlgID(oid []int, withNull bool) *der.Node {
	if withNull {
		return der.Seq(der.OID(oid...), der.Null())
	}
	return der.Seq(der.OID(oid...))
}

// RSASPKI builds a SubjectPublicKeyInfo for (N, e).
func RSASPKI(n, e *big.Int) *der.Node {
	return der.Seq(AlgID(OIDRSAEncryption, true), der.BitWrap(der.Seq(der.IntBytes(n.Bytes()), der.IntBytes(e.Bytes()))))
}

// A fixed valid P-256 point (the curve generator).
var p256G = []byte{0x04,
	0x6b, 0x17, 0xd1, 0xf2, 0xe1, 0x2c, 0x42, 0x47, 0xf8, 0xbc, 0xe6, 0xe5, 0x63, 0xa4, 0x40, 0xf2, 0x77, 0x03, 0x7d, 0x81, 0x2d, 0xeb, 0x33, 0xa0, 0xf4, 0xa1, 0x39, 0x45, 0xd8, 0x98, 0xc2, 0x96,
	0x4f, 0xe3, 0x42, 0xe2, 0xfe, 0x1a, 0x7f, 0x9b, 0x8e, 0xe7, 0xeb, 0x4a, 0x7c, 0x0f, 0x9e, 0x16, 0x2b, 0xce, 0x33, 0x57, 0x6b, 0x31, 0x5e, 0xce, 0xcb, 0xb6, 0x40, 0x68, 0x37, 0xbf, 0x51, 0xf5}

// ECSPKI builds a P-256 SubjectPublicKeyInfo with a fixed valid point.
func ECSPKI() *der.Node {
	return der.Seq(der.Seq(der.OID(OIDECPublicKey...), der.OID(OIDP256...)), der.Bits(p256G, 0))
}

// DSASPKI builds a DSA SubjectPublicKeyInfo with small (syntactically valid) parameters.
func DSASPKI() *der.Node {
	p := new(big.Int).Lsh(big.NewInt(1), 1023)
	p.Add(p, big.NewInt(1155))
	q := new(big.Int).Lsh(big.NewInt(1), 159)
	q.Add(q, big.NewInt(27))
	g := big.NewInt(2)
	y := big.NewInt(12345)
	return der.Seq(der.Seq(der.OID(OIDDSA...), der.Seq(der.IntBytes(p.Bytes()), der.IntBytes(q.Bytes()), der.IntBytes(g.Bytes()))),
		der.BitWrap(der.IntBytes(y.Bytes())))
}

// Ext builds Extension{oid, critical?, OCTET STRING{value}}.
func Ext(oid []int, critical bool, value ...*der.Node) *der.Node {
	e := der.Seq(der.OID(oid...))
	if critical {
		e.Children = append(e.Children, der.Bool(true))
	}
	e.Children = append(e.Children, der.OctetWrap(value...))
	return e
}

// ExtRaw builds an extension whose value is the given raw bytes.
func ExtRaw(oid []int, critical bool, raw []byte) *der.Node {
	e := der.Seq(der.OID(oid...))
	if critical {
		e.Children = append(e.Children, der.Bool(true))
	}
	e.Children = append(e.Children, der.Octets(raw))
	return e
}

func BasicConstraints(isCA bool, critical bool) *der.Node {
	if isCA {
		return Ext(OIDExtBC, critical, der.Seq(der.Bool(true)))
	}
	return Ext(OIDExtBC, critical, der.Seq())
}

// KeyUsage from the bit mask where bit 0 = digitalSignature (MSB-first on the wire).
func KeyUsage(bits ...int) *der.Node {
	var b [2]byte
	max := -1
	for _, i := range bits {
		b[i/8] |= 0x80 >> uint(i%8)
		if i > max {
			max = i
		}
	}
	n := max/8 + 1
	unused := byte(7 - max%8)
	return Ext(OIDExtKU, true, der.Bits(b[:n], unused))
}

func EKU(oids ...[]int) *der.Node {
	s := der.Seq()
	for _, o := range oids {
		s.Children = append(s.Children, der.OID(o...))
	}
	return Ext(OIDExtEKU, false, s)
}

func Policies(oids ...[]int) *der.Node {
	s := der.Seq()
	for _, o := range oids {
		s.Children = append(s.Children, der.Seq(der.OID(o...)))
	}
	return Ext(OIDExtCP, false, s)
}

// GeneralName constructors.
func GNDNS(s string) *der.Node    { return der.Prim(2, 2, []byte(s)) }
func GNEmail(s string) *der.Node  { return der.Prim(2, 1, []byte(s)) }
func GNURI(s string) *der.Node    { return der.Prim(2, 6, []byte(s)) }
func GNIP(b []byte) *der.Node     { return der.Prim(2, 7, b) }
func GNRID(arcs ...int) *der.Node { n := der.OID(arcs...); n.Class, n.Tag = 2, 8; return n }
func GNDirName(name *der.Node) *der.Node {
	return der.Cons(2, 4, name)
}
func GNOther(oid []int, val *der.Node) *der.Node {
	if val == nil {
		return der.Cons(2, 0, der.OID(oid...), der.Cons(2, 0))
	}
	return der.Cons(2, 0, der.OID(oid...), der.Cons(2, 0, val))
}

func SAN(critical bool, gns ...*der.Node) *der.Node { return Ext(OIDExtSAN, critical, der.Seq(gns...)) }
func IAN(gns ...*der.Node) *der.Node                 { return Ext(OIDExtIAN, false, der.Seq(gns...)) }

// AIA builds authorityInfoAccess from (method, generalName) pairs.
func AIA(pairs ...[2]*der.Node) *der.Node {
	s := der.Seq()
	for _, p := range pairs {
		s.Children = append(s.Children, der.Seq(p[0], p[1]))
	}
	return Ext(OIDExtAIA, false, s)
}

func SKI(id []byte) *der.Node { return Ext(OIDExtSKI, false, der.Octets(id)) }
func AKI(id []byte) *der.Node { return Ext(OIDExtAKI, false, der.Seq(der.Prim(2, 0, id))) }

// NameConstraintsIP builds a nameConstraints extension with iPAddress
// subtrees (address||mask) under permitted ([0]) and excluded ([1]).
func NameConstraintsIP(permitted, excluded [][]byte) *der.Node {
	body := der.Seq()
	mk := func(tag int, list [][]byte) {
		if len(list) == 0 {
			return
		}
		t := der.Cons(2, tag)
		for _, b := range list {
			t.Children = append(t.Children, der.Seq(GNIP(b)))
		}
		body.Children = append(body.Children, t)
	}
	mk(0, permitted)
	mk(1, excluded)
	return Ext(OIDExtNC, true, body)
}

// Spec describes one certificate.
type Spec struct {
	Serial     int64
	SigAlg     *der.Node // default sha256WithRSAEncryption
	Issuer     *der.Node
	Subject    *der.Node
	NotBefore  time.Time
	NotAfter   time.Time
	NotBeforeN *der.Node // raw override
	NotAfterN  *der.Node
	SPKI       *der.Node
	Exts       []*der.Node
	Signature  []byte
	V1         bool
}

var defaultN = func() *big.Int {
	// a fixed 2048-bit odd number with the top bit set and no small factors of
	// interest: 2^2047 + a prime-ish tail; primality is irrelevant to zlint.
	n := new(big.Int).Lsh(big.NewInt(1), 2047)
	n.Add(n, new(big.Int).SetUint64(0x9e3779b97f4a7c15))
	// make it free of factors below 752 by searching upwards in steps of 2
	for {
		ok := true
		for p := int64(3); p < 760; p += 2 {
			if new(big.Int).Mod(n, big.NewInt(p)).Sign() == 0 {
				ok = false
				break
			}
		}
		if ok {
			return n
		}
		n.Add(n, big.NewInt(2))
	}
}()

// DefaultRSASPKI is a 2048-bit, e=65537 key that passes the key-quality lints.
func DefaultRSASPKI() *der.Node { return RSASPKI(defaultN, big.NewInt(65537)) }

func DefaultIssuer() *der.Node {
	return Name(ATV{OIDC, 19, "US"}, ATV{OIDO, 12, "Verif Test CA"}, ATV{OIDCN, 12, "Verif Issuing CA 1"})
}

// Build returns the DER of the certificate.
func (s Spec) Build() []byte { return s.Tree().Encode() }

// Tree returns the certificate as a DER tree.
func (s Spec) Tree() *der.Node {
	sig := s.SigAlg
	if sig == nil {
		sig = AlgID(OIDSha256WithRSA, true)
	}
	iss := s.Issuer
	if iss == nil {
		iss = DefaultIssuer()
	}
	sub := s.Subject
	if sub == nil {
		sub = der.Seq()
	}
	spki := s.SPKI
	if spki == nil {
		spki = DefaultRSASPKI()
	}
	nb, na := s.NotBeforeN, s.NotAfterN
	if nb == nil {
		nb = Time(s.NotBefore)
	}
	if na == nil {
		na = Time(s.NotAfter)
	}
	serial := s.Serial
	if serial == 0 {
		serial = 0x1234567890abcd
	}
	tbs := der.Seq()
	if !s.V1 {
		tbs.Children = append(tbs.Children, der.Cons(2, 0, der.Int(2)))
	}
	tbs.Children = append(tbs.Children, der.Int(serial), sig.Clone(), iss, der.Seq(nb, na), sub, spki)
	if len(s.Exts) > 0 && !s.V1 {
		tbs.Children = append(tbs.Children, der.Cons(2, 3, der.Seq(s.Exts...)))
	}
	sigBytes := s.Signature
	if sigBytes == nil {
		sigBytes = make([]byte, 256)
		for i := range sigBytes {
			sigBytes[i] = byte(i*7 + 1)
		}
	}
	return der.Seq(tbs, sig.Clone(), der.Bits(sigBytes, 0))
}
