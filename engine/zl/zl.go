// Package zl wraps the real zlint entry points for objects of all three kinds.
package zl

import (
	"fmt"
	"sort"
	"strings"

	"github.com/zmap/zcrypto/x509"
	"github.com/zmap/zlint/v3"
	"github.com/zmap/zlint/v3/lint"
	"golang.org/x/crypto/ocsp"

	"verif/seeds"
)

type Obj struct {
	Kind seeds.Kind
	DER  []byte
	Cert *x509.Certificate
	CRL  *x509.RevocationList
	OCSP *ocsp.Response
}

// Parse hands the bytes to the real parser of the kind.
func Parse(kind seeds.Kind, der []byte) (*Obj, error) {
	o := &Obj{Kind: kind, DER: der}
	var err error
	switch kind {
	case seeds.Cert:
		o.Cert, err = seeds.ParseCert(der)
	case seeds.CRL:
		o.CRL, err = seeds.ParseCRL(der)
	case seeds.OCSP:
		o.OCSP, err = seeds.ParseOCSP(der)
	}
	if err != nil {
		return nil, err
	}
	return o, nil
}

// Lint runs the real Lint*Ex for the object's kind; a panic reaching the
// caller is returned as a value, never propagated.
func Lint(o *Obj, reg lint.Registry) (rs *zlint.ResultSet, panicked interface{}) {
	defer func() {
		if r := recover(); r != nil {
			rs, panicked = nil, r
		}
	}()
	switch o.Kind {
	case seeds.Cert:
		return zlint.LintCertificateEx(o.Cert, reg), nil
	case seeds.CRL:
		return zlint.LintRevocationListEx(o.CRL, reg), nil
	default:
		return zlint.LintOcspResponseEx(o.OCSP, reg), nil
	}
}

// KindNames returns the names of the lints of the object's kind in reg,
// computed from the per-kind listing (independent of the result set).
func KindNames(k seeds.Kind, reg lint.Registry) []string {
	var out []string
	switch k {
	case seeds.Cert:
		for _, l := range reg.CertificateLints().Lints() {
			out = append(out, l.Name)
		}
	case seeds.CRL:
		for _, l := range reg.RevocationListLints().Lints() {
			out = append(out, l.Name)
		}
	default:
		for _, l := range reg.OcspResponseLints().Lints() {
			out = append(out, l.Name)
		}
	}
	return out
}

// Meta returns the registered metadata of a lint of the given kind.
func Meta(k seeds.Kind, reg lint.Registry, name string) (lint.LintMetadata, bool) {
	switch k {
	case seeds.Cert:
		if l := reg.CertificateLints().ByName(name); l != nil {
			return l.LintMetadata, true
		}
	case seeds.CRL:
		if l := reg.RevocationListLints().ByName(name); l != nil {
			return l.LintMetadata, true
		}
	default:
		if l := reg.OcspResponseLints().ByName(name); l != nil {
			return l.LintMetadata, true
		}
	}
	return lint.LintMetadata{}, false
}

// Vector is the canonical observable form of a result set: sorted
// name=status|details lines (timestamp excluded).
func Vector(rs *zlint.ResultSet, withDetails bool) string {
	if rs == nil {
		return "<nil>"
	}
	names := make([]string, 0, len(rs.Results))
	for n := range rs.Results {
		names = append(names, n)
	}
	sort.Strings(names)
	var sb strings.Builder
	for _, n := range names {
		r := rs.Results[n]
		if r == nil {
			fmt.Fprintf(&sb, "%s=<nil>\n", n)
			continue
		}
		if withDetails {
			fmt.Fprintf(&sb, "%s=%d|%s\n", n, int(r.Status), r.Details)
		} else {
			fmt.Fprintf(&sb, "%s=%d\n", n, int(r.Status))
		}
	}
	fmt.Fprintf(&sb, "flags=%v%v%v%v", rs.NoticesPresent, rs.WarningsPresent, rs.ErrorsPresent, rs.FatalsPresent)
	return sb.String()
}

const PanicMarker = "' panicked. Error:"

func IsPanicDetails(name, details string) bool {
	return strings.HasPrefix(details, "'"+name+PanicMarker)
}
