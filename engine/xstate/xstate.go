// Package xstate is Engine X: breadth-first explicit-state exploration of the
// objects reachable from a seed set by ≤ k edits of the DER edit alphabet.
// A state is (seed, edit path); its canonical key is SHA-256 of the DER.
package xstate

import (
	"encoding/hex"
	"strings"

	"verif/core"
	"verif/der"
	"verif/seeds"
	"verif/zl"
)

type State struct {
	Seed *seeds.Seed
	Path []string
	DER  []byte
	Hash uint64
	Obj  *zl.Obj
}

// Replay returns the artefact fields that identify this state.
func (s *State) Replay() map[string]interface{} {
	return map[string]interface{}{
		"seed": s.Seed.Name, "kind": s.Seed.Kind.String(), "path": s.Path, "der_hex": hex.EncodeToString(s.DER),
	}
}

type Options struct {
	Seeds []seeds.Seed
	Depth int // 0 or 1 (depth 2 via Focus)
	// Focus, if set, is called with the parsed tree of each seed and returns
	// the subtrees in which depth-2 exploration takes place.
	Focus func(s *seeds.Seed, root *der.Node) []*der.Node
	// NoCompound leaves the compound edit "duplicate an element and change one leaf of the copy" out
	// (checks whose oracle costs hundreds of lint runs per state).
	NoCompound bool
	// Only, if set, restricts the successors to the edits whose description it accepts.
	Only func(desc string) bool
}

// Structural accepts the edits that change the shape of a list — delete, duplicate, swap, grow — and nothing else.
func Structural(desc string) bool {
	i := strings.IndexByte(desc, ':')
	if i < 0 {
		return false
	}
	op := desc[i+1:]
	return op == "delete" || op == "dup" || op == "swapNext" || strings.HasPrefix(op, "gr") || strings.HasPrefix(op, "dup2")
}

// Explore enumerates states, hands parser-accepted ones that belong to this
// shard to visit, and maintains the counters states/transitions/accepted/
// parser_rejected/duplicate.
func Explore(ctx *core.Ctx, rep *core.Report, opt Options, visit func(*State)) {
	seen := map[uint64]struct{}{}
	eval := func(sd *seeds.Seed, path []string, enc []byte) {
		h := core.Hash64(enc)
		if !ctx.Mine(h) {
			return
		}
		if len(path) > 0 {
			rep.Inc("transitions") // each transition is counted by the shard owning its target state
		}
		if _, ok := seen[h]; ok {
			rep.Inc("duplicate")
			return
		}
		seen[h] = struct{}{}
		rep.Inc("states")
		cp := append([]byte(nil), enc...)
		o, err := zl.Parse(sd.Kind, cp)
		if err != nil {
			rep.Inc("parser_rejected")
			return
		}
		rep.Inc("accepted")
		st := &State{Seed: sd, Path: path, DER: cp, Hash: h, Obj: o}
		core.Enter(sd.Kind.String(), st.Replay)
		visit(st)
		core.Leave()
	}
	for i := range opt.Seeds {
		sd := &opt.Seeds[i]
		if ctx.Expired() {
			rep.Cap("deadline reached at seed %d/%d (%s)", i, len(opt.Seeds), sd.Name)
			return
		}
		eval(sd, nil, sd.DER)
		if opt.Depth < 1 {
			continue
		}
		root, err := der.Parse(sd.DER)
		if err != nil {
			rep.Inc("seed_not_der_roundtrip")
			continue
		}
		der.Successors(root, nil, func(desc string, enc []byte) {
			if opt.NoCompound && (strings.Contains(desc, ":dm") || strings.Contains(desc, ":gr") || strings.Contains(desc, ":dup2") || strings.Contains(desc, ":int2:")) {
				return
			}
			if opt.Only != nil && !opt.Only(desc) {
				return
			}
			eval(sd, []string{desc}, enc)
		})
		if opt.Focus != nil {
			for _, f := range opt.Focus(sd, root) {
				exploreDepth2(ctx, rep, sd, root, f, eval)
			}
		}
	}
}

// exploreDepth2: every pair of edits inside the focus subtree. The first edit
// is materialised on a clone located by the same pre-order index.
func exploreDepth2(ctx *core.Ctx, rep *core.Report, sd *seeds.Seed, root, focus *der.Node, eval func(*seeds.Seed, []string, []byte)) {
	// index path of focus inside root
	var idxPath []int
	var find func(n *der.Node, p []int) bool
	find = func(n *der.Node, p []int) bool {
		if n == focus {
			idxPath = append([]int(nil), p...)
			return true
		}
		for i, c := range n.Children {
			if find(c, append(p, i)) {
				return true
			}
		}
		return false
	}
	if !find(root, nil) {
		return
	}
	type first struct {
		desc string
		enc  []byte
	}
	var firsts []first
	der.Successors(root, focus, func(desc string, enc []byte) {
		firsts = append(firsts, first{desc, append([]byte(nil), enc...)})
	})
	for _, f := range firsts {
		if ctx.Expired() {
			return
		}
		r2, err := der.Parse(f.enc)
		if err != nil {
			continue
		}
		// locate the focus position again (it may have vanished)
		n := r2
		ok := true
		for _, i := range idxPath {
			if i >= len(n.Children) {
				ok = false
				break
			}
			n = n.Children[i]
		}
		if !ok {
			continue
		}
		der.Successors(r2, n, func(desc string, enc []byte) {
			eval(sd, []string{"F" + f.desc, "F" + desc}, enc)
		})
	}
}
