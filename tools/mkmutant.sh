#!/bin/bash
# usage: tools/mkmutant.sh <ID> <name> <file> <python-regex-old> <new>   — creates mutants/<ID>/<name>.diff from a one-spot edit of /repo/<file>
set -e
ID=$1; NAME=$2; FILE=$3; OLD=$4; NEW=$5
cd /repo
python3 - "$FILE" "$OLD" "$NEW" <<'PY'
import sys
f,old,new=sys.argv[1:4]
s=open(f).read()
assert s.count(old)>=1, "pattern not found in "+f
open(f,'w').write(s.replace(old,new,1))
PY
mkdir -p /verif/mutants/$ID
git diff > /verif/mutants/$ID/$NAME.diff
git checkout -- .
echo "wrote mutants/$ID/$NAME.diff ($(wc -l < /verif/mutants/$ID/$NAME.diff) lines)"
