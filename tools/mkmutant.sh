#!/bin/bash
# usage: tools/mkmutant.sh <ID> <name> <file> <old-text> <new-text>
# creates mutants/<ID>/<name>.diff from a one-spot edit of <file> in a scratch worktree of /repo (never /repo itself)
set -e
ID=$1; NAME=$2; FILE=$3; OLD=$4; NEW=$5
W=/tmp/verif-selftest/mk-$$
mkdir -p /tmp/verif-selftest
git -C /repo worktree add --detach $W HEAD -q
trap "git -C /repo worktree remove --force $W" EXIT
cd $W
python3 - "$FILE" "$OLD" "$NEW" <<'PY'
import sys
f,old,new=sys.argv[1:4]
s=open(f).read()
assert s.count(old)>=1, "pattern not found in "+f
open(f,'w').write(s.replace(old,new,1))
PY
(cd v3 && GOFLAGS=-mod=mod GOPROXY=off GOSUMDB=off GOTOOLCHAIN=local go build ./... ) || { echo "DOES NOT COMPILE"; exit 1; }
if [ -z "$NOTEST" ]; then (cd v3 && GOFLAGS=-mod=mod GOPROXY=off GOSUMDB=off GOTOOLCHAIN=local go test -vet=off -count=1 ./... 2>&1 | grep -v "^ok\|no test files" | head -5); fi
mkdir -p /verif/mutants/$ID
git diff > /verif/mutants/$ID/$NAME.diff
echo "wrote mutants/$ID/$NAME.diff ($(wc -l < /verif/mutants/$ID/$NAME.diff) lines)"
