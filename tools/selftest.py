#!/usr/bin/env python3
"""Self-test: apply each deliberate property-breaking patch in mutants/<ID>/*.diff to /repo,
run the property's quick check, require exit 1 with a VIOLATION line, undo the patch.

usage: tools/selftest.py [ID ...]      (default: all)
       tools/selftest.py --seeded [id ...]   (patches under seeded/<id>/patch.diff, property from meta.json)
"""
import glob, json, os, subprocess, sys, time
V = os.path.dirname(os.path.dirname(os.path.abspath(__file__)))
REPO = "/repo"

def sh(cmd, **kw):
    return subprocess.run(cmd, shell=True, stdout=subprocess.PIPE, stderr=subprocess.STDOUT, text=True, **kw)

def clean():
    sh("git -C %s checkout -- . && git -C %s clean -fdq -- v3/lints v3/lint v3/util v3/profiles" % (REPO, REPO))

def run_one(prop, patch, tier="quick"):
    assert sh("git -C %s status --porcelain --untracked-files=no" % REPO).stdout.strip() == "", "/repo not clean"
    r = sh("git -C %s apply %s" % (REPO, patch))
    if r.returncode != 0:
        return "APPLY-FAILED " + r.stdout.strip()[:200]
    try:
        t0 = time.time()
        b = sh("cd %s/v3 && GOFLAGS=-mod=mod GOPROXY=off GOSUMDB=off GOTOOLCHAIN=local go build ./... 2>&1 | tail -3" % REPO)
        if b.stdout.strip():
            return "DOES-NOT-COMPILE " + b.stdout.strip()[:300]
        r = sh("cd %s && ./check %s --tier %s" % (V, prop, tier))
        viol = [l for l in r.stdout.splitlines() if l.startswith("VIOLATION")]
        detail = [l for l in r.stdout.splitlines() if l.startswith("  key=")]
        status = "DETECTED" if (r.returncode == 1 and viol) else "MISSED(rc=%d)" % r.returncode
        return "%s in %.0fs %s" % (status, time.time() - t0, (detail[0][:160] if detail else r.stdout.strip().splitlines()[-1][:200] if r.stdout.strip() else ""))
    finally:
        clean()

def main():
    args = sys.argv[1:]
    results = []
    if args and args[0] == "--seeded":
        ids = args[1:] or sorted(os.listdir(os.path.join(V, "seeded")))
        for sid in ids:
            meta = json.load(open(os.path.join(V, "seeded", sid, "meta.json")))
            for prop in meta.get("checks", [meta["property"]]):
                res = run_one(prop, os.path.join(V, "seeded", sid, "patch.diff"))
                print("%-28s %-4s %s" % (sid, prop, res), flush=True)
                results.append(res)
    else:
        props = args or sorted(os.listdir(os.path.join(V, "mutants")))
        for prop in props:
            for patch in sorted(glob.glob(os.path.join(V, "mutants", prop, "*.diff"))):
                res = run_one(prop, patch)
                print("%-4s %-48s %s" % (prop, os.path.basename(patch), res), flush=True)
                results.append(res)
    return 0 if all(r.startswith("DETECTED") for r in results) else 1

if __name__ == "__main__":
    sys.exit(main())
