#!/usr/bin/env python3
"""Self-test: show that the checks report deliberate property-breaking changes.

Each patch is applied to a *scratch git worktree* of /repo's HEAD (under $VERIF_SCRATCH, default
/tmp/verif-selftest; never /repo itself), the property's check is run against that tree
(VERIF_REPO=<worktree>, build output / evidence / replays redirected with VERIF_OUT), exit 1 with a
VIOLATION line is required, and the worktree with all its build output is removed.

usage: tools/selftest.py [-j N] [--tier quick|thorough] [ID ...]     patches in mutants/<ID>/*.diff (default: all)
       tools/selftest.py [-j N] --seeded [id ...]                     seeded/<id>/patch.diff, checks from meta.json
       tools/selftest.py --verify-seeded <id>                         baseline suite passes with the patch; demo fails with
                                                                     it and passes without it
"""
import glob, json, os, shutil, subprocess, sys, time
from concurrent.futures import ThreadPoolExecutor

V = os.path.dirname(os.path.dirname(os.path.abspath(__file__)))
REPO = "/repo"
SCRATCH = os.environ.get("VERIF_SCRATCH", "/tmp/verif-selftest")
GOENV = "GOFLAGS=-mod=mod GOPROXY=off GOSUMDB=off GOTOOLCHAIN=local"


def sh(cmd, **kw):
    return subprocess.run(cmd, shell=True, stdout=subprocess.PIPE, stderr=subprocess.STDOUT, text=True, **kw)


class Worktree:
    def __init__(self, tag):
        self.dir = os.path.join(SCRATCH, tag)
        self.out = os.path.join(SCRATCH, tag + ".out")

    def __enter__(self):
        os.makedirs(SCRATCH, exist_ok=True)
        self.cleanup()
        r = sh("git -C %s worktree add --detach %s HEAD -q" % (REPO, self.dir))
        assert r.returncode == 0, r.stdout
        # uncommitted edits of /repo's tracked files are part of "the current tree": carry them over
        d = sh("git -C %s diff HEAD" % REPO).stdout
        if d.strip():
            p = subprocess.run(["git", "-C", self.dir, "apply"], input=d, text=True)
            assert p.returncode == 0
        os.makedirs(self.out, exist_ok=True)
        return self

    def cleanup(self):
        sh("git -C %s worktree remove --force %s" % (REPO, self.dir))
        shutil.rmtree(self.dir, ignore_errors=True)
        shutil.rmtree(self.out, ignore_errors=True)
        sh("git -C %s worktree prune" % REPO)

    def __exit__(self, *a):
        self.cleanup()


def run_check(wt, prop, tier):
    env = dict(os.environ, VERIF_REPO=wt.dir, VERIF_OUT=wt.out)
    t0 = time.time()
    r = subprocess.run([os.path.join(V, "check"), prop, "--tier", tier], cwd=V, env=env, stdout=subprocess.PIPE,
                       stderr=subprocess.STDOUT, text=True)
    lines = r.stdout.splitlines()
    viol = [l for l in lines if l.startswith("VIOLATION")]
    detail = [l for l in lines if l.startswith("  key=")]
    status = "DETECTED" if (r.returncode == 1 and viol) else "MISSED(rc=%d)" % r.returncode
    tail = detail[0][:170] if detail else (lines[-1][:200] if lines else "")
    return "%s in %.0fs %s" % (status, time.time() - t0, tail)


def run_one(tag, prop, patch, tier="quick"):
    with Worktree(tag) as wt:
        r = sh("git -C %s apply %s" % (wt.dir, patch))
        if r.returncode != 0:
            return "APPLY-FAILED " + r.stdout.strip()[:200]
        b = sh("cd %s/v3 && %s go build ./... 2>&1 | tail -3" % (wt.dir, GOENV))
        if b.stdout.strip():
            return "DOES-NOT-COMPILE " + b.stdout.strip()[:300]
        return run_check(wt, prop, tier)


def verify_seeded(sid):
    """the change compiles, the repository's own suite passes with it, the demonstration fails with it and passes without."""
    d = os.path.join(V, "seeded", sid)
    meta = json.load(open(os.path.join(d, "meta.json")))
    with Worktree("verify-" + sid) as wt:
        demo_dir = os.path.join(wt.dir, meta["demo_dir"])
        os.makedirs(demo_dir, exist_ok=True)
        for f in meta.get("demo_files", ["demo_test.go"]):
            shutil.copy(os.path.join(d, f), demo_dir)
        cmd = "cd %s && %s %s" % (demo_dir, GOENV, meta["demo_cmd"])
        clean = sh(cmd)
        r = sh("git -C %s apply %s" % (wt.dir, os.path.join(d, "patch.diff")))
        if r.returncode != 0:
            return "APPLY-FAILED"
        broken = sh(cmd)
        for f in meta.get("demo_files", ["demo_test.go"]):
            os.remove(os.path.join(demo_dir, f))
        suite = sh("cd %s/v3 && %s go test -vet=off -count=1 ./... 2>&1 | grep -v '^ok\\|no test files' | head -20" % (wt.dir, GOENV))
        return "demo-clean-rc=%d demo-patched-rc=%d suite=%s" % (clean.returncode, broken.returncode,
                                                                 "PASS" if not suite.stdout.strip() else "FAIL: " + suite.stdout[:400])


def main():
    args = sys.argv[1:]
    jobs, tier = 1, "quick"
    while args and args[0] in ("-j", "--tier"):
        if args[0] == "-j":
            jobs = int(args[1])
        else:
            tier = args[1]
        args = args[2:]
    work = []
    if args and args[0] == "--verify-seeded":
        for sid in args[1:] or sorted(os.listdir(os.path.join(V, "seeded"))):
            print("%-28s %s" % (sid, verify_seeded(sid)), flush=True)
        return 0
    if args and args[0] == "--seeded":
        ids = args[1:] or sorted(os.listdir(os.path.join(V, "seeded")))
        for sid in ids:
            meta = json.load(open(os.path.join(V, "seeded", sid, "meta.json")))
            for prop in meta.get("checks", [meta["property"]]):
                work.append(("%-28s %-4s" % (sid, prop), "s-%s-%s" % (sid, prop), prop, os.path.join(V, "seeded", sid, "patch.diff")))
    else:
        props = args or sorted(os.listdir(os.path.join(V, "mutants")))
        for prop in props:
            for patch in sorted(glob.glob(os.path.join(V, "mutants", prop, "*.diff"))):
                name = os.path.basename(patch)
                work.append(("%-4s %-48s" % (prop, name), "m-%s-%s" % (prop, name[:-5]), prop, patch))
    results = []

    def job(w):
        res = run_one(w[1], w[2], w[3], tier)
        print(w[0], res, flush=True)
        return res
    with ThreadPoolExecutor(max_workers=jobs) as ex:
        results = list(ex.map(job, work))
    return 0 if all(r.startswith("DETECTED") for r in results) else 1


if __name__ == "__main__":
    sys.exit(main())
