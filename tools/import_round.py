#!/usr/bin/env python3
"""usage: tools/import_round.py <ROUND> <PROP> <kebab-name> <demo_dir rel. to worktree, e.g. v3/lint> [--race] [check ...]
Imports /tmp/seed<ROUND>/<PROP>-out/{patch.diff,demo_test.go,notes.md} (sub-agent deliverables of that round) into seeded/<PROP>-<name>/."""
import json, os, re, shutil, sys
V = os.path.dirname(os.path.dirname(os.path.abspath(__file__)))
rnd, prop, name, demo_dir = sys.argv[1:5]
rest = sys.argv[5:]
race = " -race" if "--race" in rest else ""
checks = [c for c in rest if c != "--race"] or [prop]
out = "/tmp/seed%s/%s-out" % (rnd, prop)
sid = "%s-%s" % (prop, name)
d = os.path.join(V, "seeded", sid)
os.makedirs(d, exist_ok=True)
files = sorted(f for f in os.listdir(out) if f.endswith("_test.go") or f.endswith(".pem") or f.endswith(".go"))
for f in files + ["patch.diff", "notes.md"]:
    shutil.copy(os.path.join(out, f), d)
tests = []
for f in files:
    tests += re.findall(r"^func (Test\w+)\(", open(os.path.join(out, f)).read(), re.M)
notes = open(os.path.join(out, "notes.md")).read()
changed = re.findall(r"^\+\+\+ b/(\S+)", open(os.path.join(out, "patch.diff")).read(), re.M)
meta = {"property": prop, "checks": checks, "summary": notes[:1800], "files_changed": changed,
        "needs_to_manifest": "see notes.md", "demo_files": files, "demo_dir": demo_dir,
        "demo_cmd": "go test -vet=off -count=1%s -run '^(%s)$' ." % (race, "|".join(tests)),
        "author": "independent sub-agent, round %s (given only the property text and a scratch worktree)" % rnd,
        "verified": "tools/selftest.py --verify-seeded %s (suite passes with the patch; demo fails with it, passes without)" % sid}
json.dump(meta, open(os.path.join(d, "meta.json"), "w"), indent=1)
print("imported", sid, files, tests)
