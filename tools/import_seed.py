#!/usr/bin/env python3
"""usage: tools/import_seed.py <out-dir> <seeded-id> <demo_dir rel. to worktree> <demo_cmd run inside demo_dir> [check ...]
Copies a sub-agent's deliverables into seeded/<id>/ with a normalised meta.json."""
import json, os, shutil, sys
V = os.path.dirname(os.path.dirname(os.path.abspath(__file__)))
import re
if sys.argv[1] == "--auto":
    # tools/import_seed.py --auto <out-dir> <seeded-id> [check ...]: demo dir and command derived from meta.json / demo_test.go
    out, sid = sys.argv[2:4]
    checks = sys.argv[4:]
    m0 = json.load(open(os.path.join(out, "meta.json")))
    demo_dir = re.split(r"[ (;,]", m0["demo_dir"].strip())[0].rstrip("/")
    if demo_dir.startswith("/"):
        demo_dir = demo_dir[demo_dir.index("v3"):]
    tests = re.findall(r"^func (Test\w+)\(", open(os.path.join(out, "demo_test.go")).read(), re.M)
    race = " -race" if "-race" in m0.get("demo_cmd", "") else ""
    demo_cmd = "go test -vet=off -count=1%s -run '^(%s)$' ." % (race, "|".join(tests))
else:
    out, sid, demo_dir, demo_cmd = sys.argv[1:5]
    checks = sys.argv[5:]
d = os.path.join(V, "seeded", sid)
os.makedirs(d, exist_ok=True)
m = json.load(open(os.path.join(out, "meta.json")))
files = [f for f in os.listdir(out) if f not in ("meta.json", "patch.diff")]
for f in files + ["patch.diff"]:
    shutil.copy(os.path.join(out, f), d)
meta = {"property": m["property"], "checks": checks or [m["property"]], "summary": m.get("summary", ""),
        "files_changed": m.get("files_changed", []), "needs_to_manifest": m.get("needs_to_manifest", ""),
        "demo_files": sorted(files), "demo_dir": demo_dir, "demo_cmd": demo_cmd,
        "author": "independent sub-agent (given only the property text and a scratch worktree)",
        "verified": "tools/selftest.py --verify-seeded %s (suite passes with the patch; demo fails with it, passes without)" % sid}
json.dump(meta, open(os.path.join(d, "meta.json"), "w"), indent=1)
print("imported", sid, files)
