#!/usr/bin/env python3
"""Regenerates MANIFEST.json from checks.json (single source of truth for per-check metadata)."""
import json, os, subprocess
V = os.path.dirname(os.path.dirname(os.path.abspath(__file__)))
checks = json.load(open(os.path.join(V, "checks.json")))
props = [json.loads(l) for l in open(os.path.join(V, "properties.jsonl")) if l.strip()]
fix_commits = []
try:
    out = subprocess.run(["git", "-C", "/repo", "log", "--format=%h %s"], stdout=subprocess.PIPE, text=True).stdout
    fix_commits = [l.split()[0] for l in out.splitlines() if l.split(" ", 1)[1].startswith("fix:")]
except Exception:
    pass
m = {
    "version": 1,
    "setup_cmd": "./setup.sh",
    "hooks": {
        "guard": "build tag 'verif' + go build -overlay (no instrumentation is committed into /repo)",
        "enable": "go build -tags verif -overlay .build/<variant>/overlay.json — overlays are generated from /repo's current files by drivers/*.py (sync shim, yields, patched runtime/time)",
        "baseline_off_cmd": "cd /repo/v3 && GOFLAGS=-mod=mod GOPROXY=off GOSUMDB=off GOTOOLCHAIN=local go test -vet=off -count=1 ./... && for m in cmd/genTestCerts cmd/gen_test_crl; do (cd $m && GOFLAGS=-mod=mod GOPROXY=off GOSUMDB=off GOTOOLCHAIN=local go test -vet=off -count=1 ./...); done",
        "source_commits": [],
        "add_only": True,
    },
    "engines": [
        {"name": "xstate", "path": "engine/xstate", "kind_free_text": "explicit-state BFS over DER edits of seed objects, SHA-256 state keys, global dedup, real parser + real Lint*Ex per state",
         "serves_properties": [p for p in checks if checks[p].get("engine") == "xstate"]},
        {"name": "opseq", "path": "engine/oracle", "kind_free_text": "exhaustive enumeration of API operation sequences / option products against Go reference models",
         "serves_properties": [p for p in checks if checks[p].get("engine") == "opseq"]},
        {"name": "sched", "path": "engine/sched", "kind_free_text": "cooperative scheduler + DFS over schedules with preemption bound (stateless model checking of the real code)",
         "serves_properties": [p for p in checks if checks[p].get("engine") == "sched"]},
    ],
    "checks": [],
    "not_applicable": [],
    "notes": "fix: commits in /repo: " + ", ".join(fix_commits) + ". Known/fixed findings: known_findings.jsonl. See DESIGN.md.",
}
for p in props:
    pid = p["id"]
    c = checks.get(pid)
    if not c or c.get("disabled"):
        m["not_applicable"].append({"property_id": pid, "reason": (c or {}).get("na_reason", "check not built yet in this round (planned, see DESIGN.md §3); not claimed until its machinery exists")})
        continue
    e = {
        "property_id": pid,
        "quick_cmd": "./check %s --tier quick" % pid,
        "thorough_cmd": "./check %s --tier thorough" % pid,
        "evidence_file": "evidence/%s.json" % pid,
        "replay_cmd_template": "./check %s --replay {path}" % pid,
        "engine": c.get("engine", "xstate"),
        "level_claimed": {"category": c.get("level", "model_checking"), "text": c.get("level_text", c.get("rule", "")), "design_ref": c.get("design_ref", "DESIGN.md §3 " + pid)},
        "level_note": c.get("level_note", "; ".join(c.get("assumptions", []))),
        "technique": c.get("technique", "bounded exhaustive explicit-state exploration of the real code"),
    }
    m["checks"].append(e)
json.dump(m, open(os.path.join(V, "MANIFEST.json"), "w"), indent=1)
print("claimed", [c["property_id"] for c in m["checks"]], "n/a", len(m["not_applicable"]))
