#!/bin/bash
# MANIFEST.setup_cmd: build the framework from files on disk only and warm the Go build cache.
set -e
cd "$(dirname "$0")"
mkdir -p .build evidence replays
./check --build
echo "setup ok"
