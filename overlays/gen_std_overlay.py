#!/usr/bin/env python3
"""Generates patched copies of three standard-library files (from the GOROOT in use) and an
overlay.json that substitutes them at build time. The seams they add:

  runtime.VerifSetMapOrder(ctl, seed)   every map iteration starts at (ctl-1) and every new map is
                                         seeded with `seed` — map iteration order becomes an
                                         explorer-chosen environment answer instead of a hidden coin
  time.VerifSetNow(sec) / time.VerifNowCalls()   fixed clock + call counter
  syscall.VerifEnvCalls()               counter of Getenv/Environ/Setenv/Unsetenv/Clearenv

Nothing in /repo is touched. usage: gen_std_overlay.py <outdir> [extra-overlay.json ...] -> prints overlay path
"""
import json, os, subprocess, sys

def goroot():
    return subprocess.run(["go", "env", "GOROOT"], stdout=subprocess.PIPE, text=True, env=dict(os.environ, GOTOOLCHAIN="local")).stdout.strip()

def patch(src, repl, path):
    s = open(src).read()
    for old, new, count in repl:
        assert s.count(old) == count, "patch site %r occurs %d times in %s (expected %d)" % (old[:50], s.count(old), src, count)
        s = s.replace(old, new)
    os.makedirs(os.path.dirname(path), exist_ok=True)
    open(path, "w").write(s)

def main():
    out = os.path.abspath(sys.argv[1])
    gr = goroot()
    repl = {}
    # runtime/map.go
    src = os.path.join(gr, "src/runtime/map.go")
    dst = os.path.join(out, "std/runtime/map.go")
    patch(src, [
        ("\tr := uintptr(rand())\n\tit.startBucket", "\tr := uintptr(rand())\n\tif verifMapIterCtl != 0 {\n\t\tr = verifMapIterCtl - 1\n\t}\n\tit.startBucket", 1),
        ("h.hash0 = uint32(rand())", "h.hash0 = verifHash0()", 4),
        ("\tr := int(rand())\n\toffset := uint8(r >> h.B & (abi.MapBucketCount - 1))", "\tr := int(rand())\n\tif verifMapIterCtl != 0 {\n\t\tr = int(verifMapIterCtl - 1)\n\t}\n\toffset := uint8(r >> h.B & (abi.MapBucketCount - 1))", 2),
    ], dst)
    with open(dst, "a") as f:
        f.write("""
// ---- verif seam (overlay only) ----
// Deterministic from process start, so that maps built by package initialisers are seeded alike in
// every worker process; VerifSetMapOrder(0, 0) switches back to the runtime's random choices.
var verifMapIterCtl uintptr = 1
var verifMapSeed uint32 = 0x9e3779b9

// VerifSetMapOrder makes map iteration order deterministic: ctl != 0 fixes the start of every
// iteration to ctl-1, and every map created afterwards is seeded with seed.
func VerifSetMapOrder(ctl uintptr, seed uint32) { verifMapIterCtl, verifMapSeed = ctl, seed }

func verifHash0() uint32 {
	if verifMapIterCtl != 0 {
		return verifMapSeed
	}
	return uint32(rand())
}
""")
    repl[src] = dst
    # time/time.go
    src = os.path.join(gr, "src/time/time.go")
    dst = os.path.join(out, "std/time/time.go")
    patch(src, [
        ("func Now() Time {\n\tsec, nsec, mono := now()", "func Now() Time {\n\tverifNowCalls++\n\tif verifNowSec != 0 {\n\t\treturn unixTime(verifNowSec, 0)\n\t}\n\tsec, nsec, mono := now()", 1),
    ], dst)
    with open(dst, "a") as f:
        f.write("""
// ---- verif seam (overlay only) ----
var verifNowSec int64
var verifNowCalls int64

// VerifSetNow fixes the clock (0 = real clock).
func VerifSetNow(sec int64) { verifNowSec = sec }

// VerifNowCalls counts calls of Now.
func VerifNowCalls() int64 { return verifNowCalls }
""")
    repl[src] = dst
    # syscall/env_unix.go
    src = os.path.join(gr, "src/syscall/env_unix.go")
    dst = os.path.join(out, "std/syscall/env_unix.go")
    patch(src, [
        ("func Getenv(key string) (value string, found bool) {\n", "func Getenv(key string) (value string, found bool) {\n\tverifEnvCalls++\n", 1),
        ("func Setenv(key, value string) error {\n", "func Setenv(key, value string) error {\n\tverifEnvCalls++\n", 1),
        ("func Unsetenv(key string) error {\n", "func Unsetenv(key string) error {\n\tverifEnvCalls++\n", 1),
        ("func Clearenv() {\n", "func Clearenv() {\n\tverifEnvCalls++\n", 1),
        ("func Environ() []string {\n", "func Environ() []string {\n\tverifEnvCalls++\n", 1),
    ], dst)
    with open(dst, "a") as f:
        f.write("""
// ---- verif seam (overlay only) ----
var verifEnvCalls int64

// VerifEnvCalls counts environment accesses.
func VerifEnvCalls() int64 { return verifEnvCalls }
""")
    repl[src] = dst
    # syscall/zsyscall_linux_amd64.go + exec_unix.go: a counter on the system calls through which a Go program reaches files,
    # the network and other processes (openat, fstatat, faccessat, readlinkat, socket, connect, fork/exec) — I/O freedom
    # becomes checkable on EVERY explored state, not only under strace
    src = os.path.join(gr, "src/syscall/zsyscall_linux_amd64.go")
    if os.path.exists(src):
        dst = os.path.join(out, "std/syscall/zsyscall_linux_amd64.go")
        try:
            patch(src, [
                ("func openat(dirfd int, path string, flags int, mode uint32) (fd int, err error) {\n", "func openat(dirfd int, path string, flags int, mode uint32) (fd int, err error) {\n\tverifIOCalls++\n", 1),
                ("func fstatat(fd int, path string, stat *Stat_t, flags int) (err error) {\n", "func fstatat(fd int, path string, stat *Stat_t, flags int) (err error) {\n\tverifIOCalls++\n", 1),
                ("func faccessat(dirfd int, path string, mode uint32) (err error) {\n", "func faccessat(dirfd int, path string, mode uint32) (err error) {\n\tverifIOCalls++\n", 1),
                ("func readlinkat(dirfd int, path string, buf []byte) (n int, err error) {\n", "func readlinkat(dirfd int, path string, buf []byte) (n int, err error) {\n\tverifIOCalls++\n", 1),
                ("func socket(domain int, typ int, proto int) (fd int, err error) {\n", "func socket(domain int, typ int, proto int) (fd int, err error) {\n\tverifIOCalls++\n", 1),
                ("func connect(s int, addr unsafe.Pointer, addrlen _Socklen) (err error) {\n", "func connect(s int, addr unsafe.Pointer, addrlen _Socklen) (err error) {\n\tverifIOCalls++\n", 1),
            ], dst)
            with open(dst, "a") as f:
                f.write("""
// ---- verif seam (overlay only) ----
var verifIOCalls int64

// VerifIOCalls counts file / network system calls issued through package syscall.
func VerifIOCalls() int64 { return verifIOCalls }

// VerifIOSeam reports that the counter is wired in.
const VerifIOSeam = true
""")
            repl[src] = dst
            src2 = os.path.join(gr, "src/syscall/exec_unix.go")
            dst2 = os.path.join(out, "std/syscall/exec_unix.go")
            patch(src2, [("func forkExec(argv0 string, argv []string, attr *ProcAttr) (pid int, err error) {\n", "func forkExec(argv0 string, argv []string, attr *ProcAttr) (pid int, err error) {\n\tverifIOCalls++\n", 1)], dst2)
            repl[src2] = dst2
        except AssertionError as e:
            sys.stderr.write("I/O seam not installed (%s)\n" % e)
            # fall back: a stub so that the harness builds; the strace pass remains the deciding step
            stub = os.path.join(out, "std/syscall/verif_io_stub.go")
            os.makedirs(os.path.dirname(stub), exist_ok=True)
            open(stub, "w").write("package syscall\n\nfunc VerifIOCalls() int64 { return 0 }\n\nconst VerifIOSeam = false\n")
            repl[os.path.join(gr, "src/syscall/verif_io_stub.go")] = stub
    for extra in sys.argv[2:]:
        repl.update(json.load(open(extra))["Replace"])
    path = os.path.join(out, "overlay.json")
    json.dump({"Replace": repl}, open(path, "w"), indent=1)
    print(path)

if __name__ == "__main__":
    main()
